package main

import (
	"fmt"
	"go/ast"
	"strings"
)

// C14, the command path of ALTER RETENTION POLICY (called from genC14):
// lib/util/lifted/influx/meta/apply_func_base.go ApplyUpdateRetentionPolicy decodes the protobuf
// command into a RetentionPolicyUpdate. For every optional field the rule by which the update's
// pointer is set is classified and emitted as OG.C14.rpuRule_<Field>:
//
//	rpu.F = GetDuration(v.F)                      -> present   (set iff the field is in the command)
//	if v.F != nil { …; rpu.F = &value }           -> present
//	if v.GetF() != 0 { …; rpu.F = &value }        -> nonzero   (a field present with value 0 is dropped)
//
// Anything else is a generation failure.
func c14CmdDefs(g *Gen) error {
	const file = "lib/util/lifted/influx/meta/apply_func_base.go"
	fd, err := g.Func(file, "ApplyUpdateRetentionPolicy")
	if err != nil {
		return err
	}
	want := []string{"Duration", "HotDuration", "WarmDuration", "IndexColdDuration", "IndexGroupDuration", "ShardGroupDuration", "ReplicaN"}
	rule := map[string]string{}
	assigns := func(b *ast.BlockStmt, f string) bool {
		ok := false
		ast.Inspect(b, func(n ast.Node) bool {
			if a, is := n.(*ast.AssignStmt); is && len(a.Lhs) == 1 && g.Src(a.Lhs[0]) == "rpu."+f {
				ok = true
			}
			return true
		})
		return ok
	}
	for _, st := range fd.Body.List {
		switch s := st.(type) {
		case *ast.AssignStmt:
			if len(s.Lhs) != 1 || len(s.Rhs) != 1 {
				continue
			}
			l := g.Src(s.Lhs[0])
			if !strings.HasPrefix(l, "rpu.") {
				continue
			}
			f := strings.TrimPrefix(l, "rpu.")
			if g.Src(s.Rhs[0]) == "GetDuration(v."+f+")" {
				rule[f] = "present"
			} else {
				return fmt.Errorf("%s: rpu.%s is assigned %s", file, f, g.Src(s.Rhs[0]))
			}
		case *ast.IfStmt:
			c := g.Src(s.Cond)
			for _, f := range want {
				if !assigns(s.Body, f) {
					continue
				}
				switch c {
				case "v." + f + " != nil":
					rule[f] = "present"
				case "v.Get" + f + "() != 0":
					rule[f] = "nonzero"
				default:
					return fmt.Errorf("%s: rpu.%s is set under the condition %s", file, f, c)
				}
				if s.Else != nil {
					return fmt.Errorf("%s: rpu.%s: if with else", file, f)
				}
			}
		}
	}
	g.P("/-- how `ApplyUpdateRetentionPolicy` fills a pointer of the update from an optional field of the command. -/")
	g.P("inductive FieldRule\n  | present | nonzero\nderiving DecidableEq, Repr\n")
	for _, f := range want {
		r, ok := rule[f]
		if !ok {
			return fmt.Errorf("%s: no statement sets rpu.%s", file, f)
		}
		g.P("def rpuRule_%s : FieldRule := .%s", f, r)
	}
	g.P("")
	return nil
}

func c14CmdShapes(g *Gen) error {
	rs, err := g.Returns("lib/util/lifted/influx/meta/apply_func_base.go", "ApplyUpdateRetentionPolicy")
	if err != nil {
		return err
	}
	g.StrList("applyUpdateRP_returns", rs)
	for _, f := range [][3]string{
		{"lib/metaclient/meta_client_impl.go", "Client.UpdateRetentionPolicy", "src_clientUpdateRetentionPolicy"},
		{"lib/util/lifted/influx/meta/data.go", "GetDuration", "src_GetDuration"},
		{"lib/util/lifted/influx/meta/data.go", "GetInt64Duration", "src_GetInt64Duration"},
		{"lib/util/lifted/influx/meta/data.go", "LoadDurationOrDefault", "src_LoadDurationOrDefault"},
		{"lib/util/lifted/influx/meta/retentionpolicy.go", "RetentionPolicyInfo.checkGeqThanMinDuration", "src_checkGeqThanMinDuration"},
		{"lib/util/lifted/influx/meta/retentionpolicy.go", "RetentionPolicyInfo.checkGeqThanShardGroupDuration", "src_checkGeqThanShardGroupDuration"},
	} {
		fd, err := g.Func(f[0], f[1])
		if err != nil {
			return err
		}
		g.P("def %s : String := %s", f[2], leanStr(c14StripLogs(g, fd.Body)))
	}
	c, err := g.Const("lib/util/lifted/influx/meta/retentionpolicy.go", "MinRetentionPolicyDuration")
	if err != nil {
		// the constant may live in another file of the package
		c, err = g.Const("lib/util/lifted/influx/meta/data.go", "MinRetentionPolicyDuration")
		if err != nil {
			return err
		}
	}
	g.P("def minRetentionPolicyDuration_src : String := %s", leanStr(c))
	return nil
}
