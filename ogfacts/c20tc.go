package main

import "fmt"

// C20, time cluster: the query side rounds the time range to the cluster duration with
// executor.window (translated), the write side clusters a row's time with
// time.Duration(t).Truncate(tcDuration) (Go standard library: d - d%m for m > 0). The theorem
// OG.C20.TC.timeCluster_range_sound is stated over the translated window.
func genC20TC(g *Gen) error {
	const qlAst = "lib/util/lifted/influx/influxql/ast.go"
	for _, c := range [][3]string{{"MinTime", "int64(math.MinInt64) + 2", "-9223372036854775806"}, {"MaxTime", "int64(math.MaxInt64) - 1", "9223372036854775806"}} {
		v, err := g.Const(qlAst, c[0])
		if err != nil {
			return err
		}
		if v != c[1] {
			return fmt.Errorf("influxql.%s = %s: not the expression this extractor evaluates (%s)", c[0], v, c[1])
		}
		g.P("def tc%s : Int := %s", c[0], c[2])
	}
	t := &Tr{g: g}
	t.Ident = func(name string) string {
		switch name {
		case "influxql.MinTime":
			return "tcMinTime"
		case "influxql.MaxTime":
			return "tcMaxTime"
		}
		return ""
	}
	if err := t.Method("engine/executor/schema.go", "window", "tcWindow", "(t window : Int)", "Int"); err != nil {
		return err
	}
	for _, f := range [][3]string{
		{"engine/executor/schema.go", "QuerySchema.GetTimeRangeByTC", "tcGetTimeRangeByTC"},
		{"lib/binaryfilterfunc/functions.go", "GetTimeCondition", "tcGetTimeCondition"},
		{"lib/binaryfilterfunc/functions.go", "CombineConditionWithAnd", "tcCombineConditionWithAnd"},
		{"engine/hybrid_index_reader.go", "initKeyCondition", "tcInitKeyCondition"},
		{"lib/record/sort.go", "SortData.Init", "tcSortDataInit"},
		{"engine/column_store_reader.go", "getSegmentRanges", "fragGetSegmentRanges"},
		{"engine/immutable/location.go", "Location.SetFragmentRanges", "locSetFragmentRanges"},
		{"engine/immutable/location.go", "Location.hasNext", "locHasNext"},
		{"engine/immutable/location.go", "Location.nextSegment", "locNextSegment"},
		{"lib/fragment/fragment.go", "NewIndexFragmentVariable", "fragNewIndexFragmentVariable"},
		{"lib/fragment/fragment.go", "IndexFragmentVariableImpl.GetSegmentsFromFragmentRange", "fragVarGetSegments"},
		{"lib/fragment/fragment.go", "IndexFragmentFixedSizeImpl.GetSegmentsFromFragmentRange", "fragFixGetSegments"},
		{"engine/index/sparseindex/field.go", "FieldRef.Less", "fieldRefLess"},
		{"engine/index/sparseindex/field.go", "FieldRef.Equals", "fieldRefEquals"},
		{"engine/index/sparseindex/field.go", "FieldRef.IsNull", "fieldRefIsNull"},
		{"engine/index/sparseindex/primary_index.go", "PKIndexWriterImpl.buildData", "pkBuildData"},
		{"engine/index/sparseindex/primary_index.go", "PKIndexWriterImpl.generateColumn", "pkGenerateColumn"},
		{"engine/index/sparseindex/primary_index.go", "PKIndexWriterImpl.buildFragment", "pkBuildFragment"},
	} {
		d, err := g.Func(f[0], f[1])
		if err != nil {
			return err
		}
		g.P("def src_%s : String := %s", f[2], leanStr(g.Src(d.Body)))
	}
	return nil
}
