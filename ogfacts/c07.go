package main

// C07 — facts for "every persistent and wire encoding decodes to exactly what was encoded".
//
// Regenerated from /repo's working tree into OG/Generated/C07.lean:
//   * the zig-zag functions (lib/encoding/int.go, lib/numberenc) translated to BitVec 64 terms
//     by a small typed expression translator (shifts are arithmetic on int64, logical on uint64);
//   * codec mode ids, thresholds, simple8b.MaxValue, the timestamp `scales` table;
//   * the simple8b selector table and, for every packN / unpackN body, its shape
//     (selector constant, (index, shift) per term / (index, shift, mask) per assignment);
//   * the canPack → packN → `i += N` chain of EncodeAll;
//   * canonical source text of the hand-modelled functions (compared with the text the model
//     was written against in OG/C07/Facts.lean).

import (
	"fmt"
	"go/ast"
	"go/constant"
	"go/token"
	"strconv"
	"strings"
)

func init() { register("C07", genC07) }

// ---- typed translation of shift/xor expressions over int64 / uint64 to BitVec 64 ----------

type bvTr struct {
	g    *Gen
	vars map[string]bool // name -> signed?
}

// expr returns (lean term, signed, error).
func (t *bvTr) expr(e ast.Expr) (string, bool, error) {
	switch x := e.(type) {
	case *ast.ParenExpr:
		return t.expr(x.X)
	case *ast.Ident:
		s, ok := t.vars[x.Name]
		if !ok {
			return "", false, fmt.Errorf("unknown identifier %s", x.Name)
		}
		return x.Name, s, nil
	case *ast.CallExpr:
		if id, ok := x.Fun.(*ast.Ident); ok && len(x.Args) == 1 && (id.Name == "uint64" || id.Name == "int64") {
			s, _, err := t.expr(x.Args[0])
			return s, id.Name == "int64", err
		}
		return "", false, fmt.Errorf("unsupported call %s", t.g.Src(x))
	case *ast.BinaryExpr:
		switch x.Op {
		case token.SHL, token.SHR:
			lit, ok := x.Y.(*ast.BasicLit)
			if !ok || lit.Kind != token.INT {
				return "", false, fmt.Errorf("shift by non-literal in %s", t.g.Src(x))
			}
			a, signed, err := t.expr(x.X)
			if err != nil {
				return "", false, err
			}
			switch {
			case x.Op == token.SHL:
				return fmt.Sprintf("(%s <<< %s)", a, lit.Value), signed, nil
			case signed:
				return fmt.Sprintf("(BitVec.sshiftRight %s %s)", a, lit.Value), signed, nil
			default:
				return fmt.Sprintf("(%s >>> %s)", a, lit.Value), signed, nil
			}
		case token.XOR, token.AND, token.OR:
			op := map[token.Token]string{token.XOR: "^^^", token.AND: "&&&", token.OR: "|||"}[x.Op]
			// an untyped literal operand takes the type of the other side
			if lit, ok := x.Y.(*ast.BasicLit); ok && lit.Kind == token.INT {
				a, signed, err := t.expr(x.X)
				return fmt.Sprintf("(%s %s %s#64)", a, op, lit.Value), signed, err
			}
			a, sa, err := t.expr(x.X)
			if err != nil {
				return "", false, err
			}
			b, sb, err := t.expr(x.Y)
			if err != nil {
				return "", false, err
			}
			if sa != sb {
				return "", false, fmt.Errorf("mixed signedness in %s", t.g.Src(x))
			}
			return fmt.Sprintf("(%s %s %s)", a, op, b), sa, nil
		}
	}
	return "", false, fmt.Errorf("unsupported expression %s", t.g.Src(e))
}

// retExpr: the single `return e` of a function; assignRHS: the RHS of the first assignment
// to `name` in the body.
func retExpr(fd *ast.FuncDecl) (ast.Expr, error) {
	for _, s := range fd.Body.List {
		if r, ok := s.(*ast.ReturnStmt); ok && len(r.Results) == 1 {
			return r.Results[0], nil
		}
	}
	return nil, fmt.Errorf("%s: no single-result return", fd.Name.Name)
}

func assignRHS(fd *ast.FuncDecl, name string) (ast.Expr, error) {
	for _, s := range fd.Body.List {
		if a, ok := s.(*ast.AssignStmt); ok && len(a.Lhs) == 1 && len(a.Rhs) == 1 {
			if id, ok := a.Lhs[0].(*ast.Ident); ok && id.Name == name {
				return a.Rhs[0], nil
			}
		}
	}
	return nil, fmt.Errorf("%s: no assignment to %s", fd.Name.Name, name)
}

func (g *Gen) bvDef(rel, fn, lean, param string, signed bool, pick func(*ast.FuncDecl) (ast.Expr, error)) error {
	fd, err := g.Func(rel, fn)
	if err != nil {
		return err
	}
	e, err := pick(fd)
	if err != nil {
		return err
	}
	t := &bvTr{g: g, vars: map[string]bool{param: signed}}
	s, _, err := t.expr(e)
	if err != nil {
		return fmt.Errorf("%s %s: %w", rel, fn, err)
	}
	g.P("def %s (%s : BitVec 64) : BitVec 64 :=\n  %s\n", lean, param, s)
	return nil
}

// ---- constants -----------------------------------------------------------------------------

func constEval(e ast.Expr, env map[string]constant.Value) (constant.Value, error) {
	switch x := e.(type) {
	case *ast.ParenExpr:
		return constEval(x.X, env)
	case *ast.BasicLit:
		v := constant.MakeFromLiteral(x.Value, x.Kind, 0)
		if v.Kind() == constant.Unknown {
			return nil, fmt.Errorf("bad literal %s", x.Value)
		}
		return v, nil
	case *ast.Ident:
		if v, ok := env[x.Name]; ok {
			return v, nil
		}
		return nil, fmt.Errorf("unknown constant %s", x.Name)
	case *ast.SelectorExpr:
		if v, ok := env[x.Sel.Name]; ok {
			return v, nil
		}
		return nil, fmt.Errorf("unknown constant %s", x.Sel.Name)
	case *ast.CallExpr: // conversions byte(x), uint64(x) …
		if len(x.Args) == 1 {
			return constEval(x.Args[0], env)
		}
	case *ast.BinaryExpr:
		a, err := constEval(x.X, env)
		if err != nil {
			return nil, err
		}
		b, err := constEval(x.Y, env)
		if err != nil {
			return nil, err
		}
		switch x.Op {
		case token.SHL, token.SHR:
			n, ok := constant.Uint64Val(constant.ToInt(b))
			if !ok {
				return nil, fmt.Errorf("bad shift count")
			}
			return constant.Shift(constant.ToInt(a), x.Op, uint(n)), nil
		case token.ADD, token.SUB, token.MUL:
			return constant.BinaryOp(a, x.Op, b), nil
		}
	}
	return nil, fmt.Errorf("unsupported constant expression")
}

// natConst emits `def lean : Nat := <value>` for a package-level constant with a
// non-negative integer value (float literals such as 1e3 with integral value included).
func (g *Gen) natConst(rel, name, lean string, env map[string]constant.Value) error {
	f, err := g.Parse(rel)
	if err != nil {
		return err
	}
	for _, d := range f.Decls {
		gd, ok := d.(*ast.GenDecl)
		if !ok {
			continue
		}
		for _, sp := range gd.Specs {
			vs, ok := sp.(*ast.ValueSpec)
			if !ok {
				continue
			}
			for i, n := range vs.Names {
				if n.Name != name || i >= len(vs.Values) {
					continue
				}
				v, err := constEval(vs.Values[i], env)
				if err != nil {
					return fmt.Errorf("%s %s: %w", rel, name, err)
				}
				iv := constant.ToInt(v)
				if iv.Kind() != constant.Int || constant.Sign(iv) < 0 {
					return fmt.Errorf("%s %s: not a natural number: %s", rel, name, v)
				}
				if env != nil {
					env[name] = iv
				}
				g.P("def %s : Nat := %s", lean, iv.ExactString())
				return nil
			}
		}
	}
	return fmt.Errorf("%s: constant %s not found", rel, name)
}

// ratConst emits numerator / denominator of a decimal constant (e.g. 0.85 -> 17/20).
func (g *Gen) ratConst(rel, name, lean string) error {
	s, err := g.Const(rel, name)
	if err != nil {
		return err
	}
	v := constant.MakeFromLiteral(s, token.FLOAT, 0)
	if v.Kind() == constant.Unknown {
		v = constant.MakeFromLiteral(s, token.INT, 0)
	}
	if v.Kind() == constant.Unknown {
		return fmt.Errorf("%s %s: not a numeric literal: %s", rel, name, s)
	}
	g.P("def %sNum : Nat := %s", lean, constant.Num(v).ExactString())
	g.P("def %sDen : Nat := %s", lean, constant.Denom(v).ExactString())
	return nil
}

func natList(xs []string) string { return "[" + strings.Join(xs, ", ") + "]" }

// ---- simple8b shapes -----------------------------------------------------------------------

func flattenOr(e ast.Expr, out *[]ast.Expr) {
	if b, ok := e.(*ast.BinaryExpr); ok && b.Op == token.OR {
		flattenOr(b.X, out)
		flattenOr(b.Y, out)
		return
	}
	if p, ok := e.(*ast.ParenExpr); ok {
		flattenOr(p.X, out)
		return
	}
	*out = append(*out, e)
}

func intLit(e ast.Expr) (string, bool) {
	if l, ok := e.(*ast.BasicLit); ok && l.Kind == token.INT {
		if _, err := strconv.ParseUint(l.Value, 0, 64); err == nil {
			return l.Value, true
		}
	}
	return "", false
}

func indexOf(e ast.Expr, arr string) (string, bool) {
	ix, ok := e.(*ast.IndexExpr)
	if !ok {
		return "", false
	}
	id, ok := ix.X.(*ast.Ident)
	if !ok || id.Name != arr {
		return "", false
	}
	return intLit(ix.Index)
}

// packShape: `return K<<60 | src[0] | src[1]<<s | …`  ->  (K, [(index, shift)…]); `return 0` -> (0, []).
func (g *Gen) packShape(rel, name string) (string, error) {
	fd, err := g.Func(rel, name)
	if err != nil {
		return "", err
	}
	e, err := retExpr(fd)
	if err != nil {
		return "", err
	}
	if v, ok := intLit(e); ok {
		return fmt.Sprintf("(%s, %s, [])", leanStr(name), v), nil
	}
	var terms []ast.Expr
	flattenOr(e, &terms)
	sel := ""
	var pairs []string
	for _, t := range terms {
		if ix, ok := indexOf(t, "src"); ok {
			pairs = append(pairs, "("+ix+", 0)")
			continue
		}
		b, ok := t.(*ast.BinaryExpr)
		if !ok || b.Op != token.SHL {
			return "", fmt.Errorf("%s: unsupported term %s", name, g.Src(t))
		}
		sh, ok := intLit(b.Y)
		if !ok {
			return "", fmt.Errorf("%s: unsupported shift %s", name, g.Src(t))
		}
		if k, ok := intLit(b.X); ok {
			if sh != "60" || sel != "" {
				return "", fmt.Errorf("%s: unexpected constant term %s", name, g.Src(t))
			}
			sel = k
			continue
		}
		ix, ok := indexOf(b.X, "src")
		if !ok {
			return "", fmt.Errorf("%s: unsupported term %s", name, g.Src(t))
		}
		pairs = append(pairs, "("+ix+", "+sh+")")
	}
	if sel == "" {
		return "", fmt.Errorf("%s: no selector term", name)
	}
	return fmt.Sprintf("(%s, %s, %s)", leanStr(name), sel, natList(pairs)), nil
}

// unpackShape: `dst[i] = v & M` / `dst[i] = (v >> s) & M` -> [(i, s, M)…]; the two run
// selectors (`for i := range dst { dst[i] = 1 }`) -> the marker [(240, 0, 1)] is not used:
// they are reported through ones=true.
func (g *Gen) unpackShape(rel, name string) (string, error) {
	fd, err := g.Func(rel, name)
	if err != nil {
		return "", err
	}
	if len(fd.Body.List) == 1 {
		if rs, ok := fd.Body.List[0].(*ast.RangeStmt); ok {
			if g.Src(rs) == "for i := range dst { dst[i] = 1 }" {
				return fmt.Sprintf("(%s, true, [])", leanStr(name)), nil
			}
		}
	}
	var rows []string
	for _, s := range fd.Body.List {
		a, ok := s.(*ast.AssignStmt)
		if !ok || a.Tok != token.ASSIGN || len(a.Lhs) != 1 || len(a.Rhs) != 1 {
			return "", fmt.Errorf("%s: unsupported statement %s", name, g.Src(s))
		}
		ix, ok := indexOf(a.Lhs[0], "dst")
		if !ok {
			return "", fmt.Errorf("%s: unsupported target %s", name, g.Src(s))
		}
		b, ok := a.Rhs[0].(*ast.BinaryExpr)
		if !ok || b.Op != token.AND {
			return "", fmt.Errorf("%s: unsupported value %s", name, g.Src(s))
		}
		mask, ok := intLit(b.Y)
		if !ok {
			return "", fmt.Errorf("%s: unsupported mask %s", name, g.Src(s))
		}
		shift := "0"
		l := b.X
		if p, ok := l.(*ast.ParenExpr); ok {
			l = p.X
		}
		switch lv := l.(type) {
		case *ast.Ident:
			if lv.Name != "v" {
				return "", fmt.Errorf("%s: unsupported value %s", name, g.Src(s))
			}
		case *ast.BinaryExpr:
			id, ok := lv.X.(*ast.Ident)
			sh, ok2 := intLit(lv.Y)
			if lv.Op != token.SHR || !ok || id.Name != "v" || !ok2 {
				return "", fmt.Errorf("%s: unsupported value %s", name, g.Src(s))
			}
			shift = sh
		default:
			return "", fmt.Errorf("%s: unsupported value %s", name, g.Src(s))
		}
		rows = append(rows, fmt.Sprintf("(%s, %s, %s)", ix, shift, mask))
	}
	return fmt.Sprintf("(%s, false, %s)", leanStr(name), natList(rows)), nil
}

// chain of `if canPack(remaining, N, B) { dst[j] = E; i += K } else if …` inside EncodeAll.
func (g *Gen) encodeAllChain(rel string) ([]string, string, error) {
	fd, err := g.Func(rel, "EncodeAll")
	if err != nil {
		return nil, "", err
	}
	var first *ast.IfStmt
	ast.Inspect(fd.Body, func(n ast.Node) bool {
		if s, ok := n.(*ast.IfStmt); ok && first == nil {
			if c, ok := s.Cond.(*ast.CallExpr); ok {
				if id, ok := c.Fun.(*ast.Ident); ok && id.Name == "canPack" {
					first = s
					return false
				}
			}
		}
		return first == nil
	})
	if first == nil {
		return nil, "", fmt.Errorf("EncodeAll: canPack chain not found")
	}
	var rows []string
	cur := first
	for {
		c := cur.Cond.(*ast.CallExpr)
		if len(c.Args) != 3 || g.Src(c.Args[0]) != "remaining" {
			return nil, "", fmt.Errorf("EncodeAll: unexpected condition %s", g.Src(cur.Cond))
		}
		n, ok1 := intLit(c.Args[1])
		b, ok2 := intLit(c.Args[2])
		if !ok1 || !ok2 || len(cur.Body.List) != 2 {
			return nil, "", fmt.Errorf("EncodeAll: unexpected arm %s", g.Src(cur.Cond))
		}
		as, ok := cur.Body.List[0].(*ast.AssignStmt)
		if !ok || g.Src(as.Lhs[0]) != "dst[j]" {
			return nil, "", fmt.Errorf("EncodeAll: unexpected arm body %s", g.Src(cur.Body))
		}
		inc, ok := cur.Body.List[1].(*ast.AssignStmt)
		if !ok || inc.Tok != token.ADD_ASSIGN || g.Src(inc.Lhs[0]) != "i" {
			return nil, "", fmt.Errorf("EncodeAll: unexpected arm body %s", g.Src(cur.Body))
		}
		k, ok := intLit(inc.Rhs[0])
		if !ok {
			return nil, "", fmt.Errorf("EncodeAll: unexpected increment %s", g.Src(inc))
		}
		rows = append(rows, fmt.Sprintf("(%s, %s, %s, %s)", n, b, leanStr(g.Src(as.Rhs[0])), k))
		switch e := cur.Else.(type) {
		case *ast.IfStmt:
			cur = e
			continue
		case *ast.BlockStmt:
			return rows, g.Src(e), nil
		default:
			return rows, "", nil
		}
	}
}

func (g *Gen) srcDef(rel, fn, lean string) error {
	fd, err := g.Func(rel, fn)
	if err != nil {
		return err
	}
	g.P("def %s : String := %s", lean, leanStr(g.Src(fd.Body)))
	return nil
}

// fpDef emits the fingerprint (hash of the canonical signature + body text) of a function the
// model transcribes by hand: a change means "re-validate the model", the correspondence decides.
func (g *Gen) fpDef(rel, fn, lean string) error {
	fp, err := g.Fingerprint(rel, fn)
	if err != nil {
		return err
	}
	g.P("def %s : String := %s", lean, leanStr(fp))
	return nil
}

func genC07(g *Gen) error {
	const (
		encInt  = "lib/encoding/int.go"
		encTime = "lib/encoding/timestamp.go"
		encStr  = "lib/encoding/string.go"
		encBool = "lib/encoding/bool.go"
		numEnc  = "lib/numberenc/number.go"
		s8b     = "lib/util/lifted/encoding/simple8b/encoding.go"
	)
	g.Header(encInt, encTime, encStr, encBool, numEnc, s8b)
	g.GenNS()

	// --- zig-zag -------------------------------------------------------------------------
	if err := g.bvDef(encInt, "ZigZagEncode", "zigZagEncode", "v", true, retExpr); err != nil {
		return err
	}
	if err := g.bvDef(encInt, "ZigZagDecode", "zigZagDecode", "v", false, retExpr); err != nil {
		return err
	}
	if err := g.bvDef(numEnc, "MarshalInt64Append", "marshalInt64Zz", "v", true,
		func(fd *ast.FuncDecl) (ast.Expr, error) { return assignRHS(fd, "v") }); err != nil {
		return err
	}
	if err := g.bvDef(numEnc, "UnmarshalInt64", "unmarshalInt64Zz", "u", false,
		func(fd *ast.FuncDecl) (ast.Expr, error) { return assignRHS(fd, "v") }); err != nil {
		return err
	}

	// --- mode ids, thresholds -------------------------------------------------------------
	env := map[string]constant.Value{}
	for _, c := range []string{"intCompressedConstDelta", "intCompressedSimple8b", "intCompressZSTD", "intUncompressed"} {
		if err := g.natConst(encInt, c, c, env); err != nil {
			return err
		}
	}
	for _, c := range []string{"timeCompressedConstDelta", "timeCompressedSimple8b", "timeCompressSnappy", "timeUncompressed"} {
		if err := g.natConst(encTime, c, c, env); err != nil {
			return err
		}
	}
	for _, c := range []string{"stringUncompressed", "stringCompressedSnappy", "StringCompressedZstd", "StringCompressedLz4"} {
		if err := g.natConst(encStr, c, "s"+c[1:], env); err != nil {
			return err
		}
	}
	if err := g.natConst(encBool, "boolCompressedBitpack", "boolCompressedBitpack", env); err != nil {
		return err
	}
	if err := g.ratConst(encStr, "minCompReta", "minCompReta"); err != nil {
		return err
	}
	if err := g.natConst(s8b, "MaxValue", "simple8bMaxValue", env); err != nil {
		return err
	}
	// scales = []uint64{1e1, …}
	{
		f, err := g.Parse(encTime)
		if err != nil {
			return err
		}
		var vals []string
		found := false
		ast.Inspect(f, func(n ast.Node) bool {
			vs, ok := n.(*ast.ValueSpec)
			if !ok || len(vs.Names) != 1 || vs.Names[0].Name != "scales" || len(vs.Values) != 1 {
				return true
			}
			cl, ok := vs.Values[0].(*ast.CompositeLit)
			if !ok {
				return true
			}
			found = true
			for _, e := range cl.Elts {
				v, err := constEval(e, nil)
				if err != nil {
					found = false
					return false
				}
				iv := constant.ToInt(v)
				if iv.Kind() != constant.Int {
					found = false
					return false
				}
				vals = append(vals, iv.ExactString())
			}
			return false
		})
		if !found {
			return fmt.Errorf("%s: scales table not found or not integral", encTime)
		}
		g.P("def scales : List Nat := %s", natList(vals))
	}
	g.P("")

	// --- simple8b selector table and shapes -----------------------------------------------
	{
		f, err := g.Parse(s8b)
		if err != nil {
			return err
		}
		var rows, packs, unpacks []string
		var gerr error
		ast.Inspect(f, func(n ast.Node) bool {
			vs, ok := n.(*ast.ValueSpec)
			if !ok || len(vs.Names) != 1 || vs.Names[0].Name != "selector" || len(vs.Values) != 1 {
				return true
			}
			cl, ok := vs.Values[0].(*ast.CompositeLit)
			if !ok {
				return true
			}
			for _, e := range cl.Elts {
				row, ok := e.(*ast.CompositeLit)
				if !ok || len(row.Elts) != 4 {
					gerr = fmt.Errorf("selector: unexpected row %s", g.Src(e))
					return false
				}
				n, ok1 := intLit(row.Elts[0])
				b, ok2 := intLit(row.Elts[1])
				if !ok1 || !ok2 {
					gerr = fmt.Errorf("selector: unexpected row %s", g.Src(e))
					return false
				}
				un, pk := g.Src(row.Elts[2]), g.Src(row.Elts[3])
				rows = append(rows, fmt.Sprintf("(%s, %s, %s, %s)", n, b, leanStr(un), leanStr(pk)))
				ps, err := g.packShape(s8b, pk)
				if err != nil {
					gerr = err
					return false
				}
				packs = append(packs, ps)
				us, err := g.unpackShape(s8b, un)
				if err != nil {
					gerr = err
					return false
				}
				unpacks = append(unpacks, us)
			}
			return false
		})
		if gerr != nil {
			return gerr
		}
		if len(rows) == 0 {
			return fmt.Errorf("%s: selector table not found", s8b)
		}
		g.P("/-- `selector`: (n, bits, unpack function, pack function) -/")
		g.P("def selector : List (Nat × Nat × String × String) := [\n  %s]", strings.Join(rows, ",\n  "))
		g.P("/-- per pack function: (name, selector constant, [(src index, shift)]) -/")
		g.P("def packShapes : List (String × Nat × List (Nat × Nat)) := [\n  %s]", strings.Join(packs, ",\n  "))
		g.P("/-- per unpack function: (name, fills dst with ones, [(dst index, shift, mask)]) -/")
		g.P("def unpackShapes : List (String × Bool × List (Nat × Nat × Nat)) := [\n  %s]", strings.Join(unpacks, ",\n  "))
		chain, tail, err := g.encodeAllChain(s8b)
		if err != nil {
			return err
		}
		g.P("/-- EncodeAll: (n, bits, value stored in dst[j], increment of i) per arm, in order -/")
		g.P("def encodeAllChain : List (Nat × Nat × String × Nat) := [\n  %s]", strings.Join(chain, ",\n  "))
		g.P("def encodeAllElse : String := %s", leanStr(tail))
	}
	for _, f := range [][3]string{
		{s8b, "canPack", "src_canPack"},
		{s8b, "Decode", "src_s8bDecode"},
		{encStr, "compressionRation", "src_compressionRation"},
	} {
		if err := g.srcDef(f[0], f[1], f[2]); err != nil {
			return err
		}
	}
	for _, f := range [][3]string{
		{encInt, "Integer.init", "fp_intInit"},
		{encInt, "Integer.Encoding", "fp_intEncoding"},
		{encInt, "Integer.encodingConstDelta", "fp_intEncodingConstDelta"},
		{encInt, "Integer.encodingSimple8b", "fp_intEncodingSimple8b"},
		{encInt, "Integer.encodingZSTD", "fp_intEncodingZSTD"},
		{encInt, "Integer.uncompressedData", "fp_intUncompressedData"},
		{encInt, "Integer.decodeInit", "fp_intDecodeInit"},
		{encInt, "Integer.Decoding", "fp_intDecoding"},
		{encInt, "Integer.decodingConstDelta", "fp_intDecodingConstDelta"},
		{encInt, "Integer.decodingSimple8b", "fp_intDecodingSimple8b"},
		{encInt, "Integer.decodingUncompressed", "fp_intDecodingUncompressed"},
	} {
		if err := g.fpDef(f[0], f[1], f[2]); err != nil {
			return err
		}
	}
	if err := genC07Rest(g); err != nil {
		return err
	}
	if err := genC07Col(g); err != nil {
		return err
	}
	if err := genC07Meta(g); err != nil {
		return err
	}
	if err := genC07Wire(g); err != nil {
		return err
	}
	if err := genC07PreAgg(g); err != nil {
		return err
	}
	g.Footer()
	return nil
}
