package main

import (
	"fmt"
	"go/ast"
	"go/parser"
	"go/token"
	"strconv"
)

func init() { register("C17", genC17) }

// c17EvalConst evaluates an integer constant expression of the raftlog package (literals,
// + - * << and references to other constants of the same files).
func c17EvalConst(g *Gen, files []string, name string, depth int) (int64, error) {
	if depth > 8 {
		return 0, fmt.Errorf("constant %s: too deep", name)
	}
	var src string
	var err error
	for _, f := range files {
		if src, err = g.Const(f, name); err == nil {
			break
		}
	}
	if err != nil {
		return 0, err
	}
	e, err := parser.ParseExpr(src)
	if err != nil {
		return 0, err
	}
	var ev func(e ast.Expr) (int64, error)
	ev = func(e ast.Expr) (int64, error) {
		switch x := e.(type) {
		case *ast.ParenExpr:
			return ev(x.X)
		case *ast.BasicLit:
			if x.Kind != token.INT {
				return 0, fmt.Errorf("constant %s: literal %s", name, x.Value)
			}
			return strconv.ParseInt(x.Value, 0, 64)
		case *ast.Ident:
			return c17EvalConst(g, files, x.Name, depth+1)
		case *ast.BinaryExpr:
			a, err := ev(x.X)
			if err != nil {
				return 0, err
			}
			b, err := ev(x.Y)
			if err != nil {
				return 0, err
			}
			switch x.Op {
			case token.ADD:
				return a + b, nil
			case token.SUB:
				return a - b, nil
			case token.MUL:
				return a * b, nil
			case token.SHL:
				return a << uint(b), nil
			}
		}
		return 0, fmt.Errorf("constant %s: unsupported expression %s", name, src)
	}
	return ev(e)
}

func genC17(g *Gen) error {
	const dir = "lib/raftlog/"
	g.Imports = []string{"OG.C17.Base"}
	srcs := []string{dir + "log.go", dir + "file.go", dir + "meta.go", dir + "entrylog.go", dir + "storage.go", dir + "file_v2.go"}
	g.Header(srcs...)
	g.GenNS()
	g.P("set_option linter.unusedVariables false")
	g.P("open OG.C17 (Params)")
	cfiles := []string{dir + "log.go", dir + "file.go", dir + "meta.go"}
	val := map[string]int64{}
	for _, c := range []string{"maxNumEntries", "logFileOffset", "maxLogFileSize", "entrySize", "unit32Size", "unit64Size",
		"metaFileSize", "hardStateOffset", "snapshotIndex", "snapshotOffset"} {
		v, err := c17EvalConst(g, cfiles, c, 0)
		if err != nil {
			return err
		}
		val[c] = v
		g.P("def %s : Nat := %d", c, v)
	}
	g.P("/-- the geometry of an entry file as the Go constants give it -/")
	g.P("def goParams : Params := { cap := maxNumEntries, dataOff := logFileOffset, maxSize := maxLogFileSize }\n")

	// expressions of entryLog.AddEntries, translated
	fd, err := g.Func(dir+"entrylog.go", "entryLog.AddEntries")
	if err != nil {
		return err
	}
	t := &Tr{g: g}
	t.Ident = func(name string) string {
		switch name {
		case "l.nextEntryIdx":
			return "nextEntryIdx"
		case "logFileOffset":
			return "(p.dataOff : Int)"
		case "maxNumEntries":
			return "(p.cap : Int)"
		case "maxLogFileSize":
			return "(p.maxSize : Int)"
		case "entrySize":
			return "(entrySize : Int)"
		case "unit32Size":
			return "(unit32Size : Int)"
		}
		return ""
	}
	t.Call = func(fun, method, recv string, args []string) string {
		switch {
		case (fun == "int64" || fun == "int") && len(args) == 1:
			return args[0]
		case fun == "len" && len(args) == 1 && args[0] == "re.Data":
			return "dataLen"
		}
		return ""
	}
	type clr struct{ slot, end, off, n string }
	var clears []clr
	var terr error
	var rotateCond, nextOff string
	ast.Inspect(fd.Body, func(n ast.Node) bool {
		switch x := n.(type) {
		case *ast.CallExpr:
			se, ok := x.Fun.(*ast.SelectorExpr)
			if !ok || se.Sel.Name != "WriteSlice" || len(x.Args) != 6 || g.Src(x.Args[5]) != "true" {
				return true
			}
			mk, ok := x.Args[3].(*ast.CallExpr)
			if !ok || g.Src(mk.Fun) != "make" || len(mk.Args) != 2 {
				terr = fmt.Errorf("AddEntries: clearing WriteSlice without make([]byte, n): %s", g.Src(x))
				return false
			}
			off, err := t.expr(x.Args[2])
			if err != nil {
				terr = err
				return false
			}
			ln, err := t.expr(mk.Args[1])
			if err != nil {
				terr = err
				return false
			}
			clears = append(clears, clr{g.Src(x.Args[0]), g.Src(x.Args[1]), off, ln})
		case *ast.IfStmt:
			if c := g.Src(x.Cond); len(x.Body.List) > 0 && rotateCond == "" {
				if is, ok := x.Body.List[0].(*ast.IfStmt); ok && is.Init != nil && g.Src(is.Init) == "err := l.rotate(re.Index, offset)" {
					s, err := t.expr(x.Cond)
					if err != nil {
						terr = fmt.Errorf("rotate condition %s: %w", c, err)
						return false
					}
					rotateCond = s
				}
			}
		case *ast.AssignStmt:
			if len(x.Lhs) == 1 && g.Src(x.Lhs[0]) == "next" && x.Tok == token.DEFINE {
				s, err := t.expr(x.Rhs[0])
				if err != nil {
					terr = err
					return false
				}
				nextOff = s
			}
		}
		return true
	})
	if terr != nil {
		return terr
	}
	if len(clears) != 2 || rotateCond == "" || nextOff == "" {
		return fmt.Errorf("AddEntries: expected two clearing WriteSlice calls, the rotate condition and `next := …` (got %d, %q, %q)", len(clears), rotateCond, nextOff)
	}
	g.P("/-- `WriteSlice(lastIdx, l.nextEntryIdx, off, make([]byte, n), false, true)`: conflict inside the current file -/")
	g.P("def clearCurOff (p : Params) (nextEntryIdx lastIdx : Int) : Int := %s", clears[0].off)
	g.P("def clearCurLen (p : Params) (nextEntryIdx lastIdx : Int) : Int := %s", clears[0].n)
	g.P("def clearCurSlots : String × String := (%s, %s)", leanStr(clears[0].slot), leanStr(clears[0].end))
	g.P("/-- `WriteSlice(lastIdx, maxNumEntries, off, make([]byte, n), false, true)`: conflict inside a rotated file -/")
	g.P("def clearRotOff (p : Params) (lastIdx : Int) : Int := %s", clears[1].off)
	g.P("def clearRotLen (p : Params) (lastIdx : Int) : Int := %s", clears[1].n)
	g.P("def clearRotSlots : String × String := (%s, %s)", leanStr(clears[1].slot), leanStr(clears[1].end))
	g.P("/-- the condition under which AddEntries rotates before writing an entry -/")
	g.P("def needRotate (p : Params) (nextEntryIdx offset dataLen : Int) : Bool := %s", rotateCond)
	g.P("/-- offset of the next payload -/")
	g.P("def nextOffset (offset dataLen : Int) : Int := %s\n", nextOff)

	// fingerprints of the functions the model transcribes by hand
	var rows [][2]string
	for _, f := range c17Fingerprinted {
		fp, err := g.Fingerprint(dir+f[0], f[1])
		if err != nil {
			return err
		}
		rows = append(rows, [2]string{f[0] + ":" + f[1], fp})
	}
	g.PairList("fingerprints", rows)
	// the order of the three writes of Save and the return shapes of Term / Entries
	for _, f := range []string{"RaftDiskStorage.Term", "RaftDiskStorage.Entries", "RaftDiskStorage.LastIndex", "RaftDiskStorage.CreateSnapshot", "RaftDiskStorage.Save"} {
		r, err := g.Returns(dir+"storage.go", f)
		if err != nil {
			return err
		}
		g.StrList("returns_"+f[len("RaftDiskStorage."):], r)
	}
	r, err := g.Returns(dir+"entrylog.go", "entryLog.seekEntry")
	if err != nil {
		return err
	}
	g.StrList("returns_seekEntry", r)
	if err := c17Order(g, dir); err != nil {
		return err
	}
	g.Footer()
	return nil
}

// c17Calls lists, in source order, the calls below node whose callee text is one of names
// (exact) — with the argument at position argPos appended when argPos >= 0.
func c17Calls(g *Gen, node ast.Node, argPos int, names ...string) []string {
	var out []string
	ast.Inspect(node, func(n ast.Node) bool {
		ce, ok := n.(*ast.CallExpr)
		if !ok {
			return true
		}
		f := g.Src(ce.Fun)
		for _, nm := range names {
			if f == nm {
				if argPos >= 0 && argPos < len(ce.Args) {
					f += "(" + g.Src(ce.Args[argPos]) + ")"
				}
				out = append(out, f)
			}
		}
		return true
	})
	return out
}

// c17Order regenerates the ORDER in which the store issues its file-system mutations: the facts
// the mutation lists of OG/C17/Crash.lean (saveMuts, rotateMuts, conflictMuts, …) transcribe.
func c17Order(g *Gen, dir string) error {
	g.P("/-! the order of the file-system mutations (OG/C17/Crash.lean transcribes it) -/")
	// Save: entries, hard state, snapshot
	fd, err := g.Func(dir+"storage.go", "RaftDiskStorage.Save")
	if err != nil {
		return err
	}
	g.StrList("order_Save", c17Calls(g, fd.Body, -1, "rds.entryLog.AddEntries", "rds.meta.StoreHardState", "rds.meta.StoreSnapshot"))
	// AddEntries: the write loop (rotate?, payload, slot) and the conflict branch into a rotated file
	fd, err = g.Func(dir+"entrylog.go", "entryLog.AddEntries")
	if err != nil {
		return err
	}
	var loop *ast.RangeStmt
	var delLoop ast.Stmt
	var delHdr string
	var rotBranch *ast.BlockStmt
	ast.Inspect(fd.Body, func(n ast.Node) bool {
		switch x := n.(type) {
		case *ast.RangeStmt:
			if g.Src(x.X) == "entries" {
				loop = x
			}
			if g.Src(x.X) == "extra" {
				delLoop, delHdr = x, "range "+g.Src(x.X)
			}
		case *ast.ForStmt:
			if len(c17Calls(g, x.Body, -1, "ef.delete")) > 0 {
				delLoop = x
				delHdr = g.Src(x.Init) + "; " + g.Src(x.Cond) + "; " + g.Src(x.Post)
			}
		case *ast.IfStmt:
			if g.Src(x.Cond) == "firstIdx == -1" {
				if b, ok := x.Else.(*ast.BlockStmt); ok {
					rotBranch = b
				}
			}
		}
		return true
	})
	if loop == nil || delLoop == nil || rotBranch == nil {
		return fmt.Errorf("AddEntries: write loop / deletion loop / rotated-file branch not found")
	}
	g.StrList("order_AddEntriesLoop", c17Calls(g, loop.Body, -1, "l.rotate", "l.current.entry.WriteSlice", "l.current.entry.WriteAt"))
	g.StrList("order_conflictRotated", c17Calls(g, rotBranch, -1, "ef.delete", "l.current.entry.WriteSlice", "l.current.entry.setCurrent"))
	g.P("/-- header of the loop that deletes the later files: which end it starts from -/")
	g.P("def order_conflictDeleteLoop : String := %s", leanStr(delHdr))
	// rotate: truncate, sync, create
	fd, err = g.Func(dir+"entrylog.go", "entryLog.rotate")
	if err != nil {
		return err
	}
	g.StrList("order_rotate", c17Calls(g, fd.Body, -1, "l.current.entry.Truncate", "l.current.entry.TrySync", "openLogFile"))
	// deleteBefore: the loop over the files before the one that holds the index
	fd, err = g.Func(dir+"entrylog.go", "entryLog.deleteBefore")
	if err != nil {
		return err
	}
	var dbHdr string
	ast.Inspect(fd.Body, func(n ast.Node) bool {
		if x, ok := n.(*ast.RangeStmt); ok && len(c17Calls(g, x.Body, -1, "ef.delete")) > 0 {
			dbHdr = "range " + g.Src(x.X)
		}
		return true
	})
	g.P("def order_deleteBeforeLoop : String := %s", leanStr(dbHdr))
	// the file wrappers: how many writes a WriteSlice / WriteAt issues, and with what
	for _, w := range [][3]string{{"file_v2.go", "FileWrapV2.WriteSlice", "writes_WriteSliceV2"}, {"file.go", "FileWrap.WriteSlice", "writes_WriteSliceV1"},
		{"file_v2.go", "FileWrapV2.WriteAt", "writes_WriteAtV2"}, {"file.go", "FileWrap.WriteAt", "writes_WriteAtV1"}} {
		fd, err = g.Func(dir+w[0], w[1])
		if err != nil {
			return err
		}
		g.StrList(w[2], c17Calls(g, fd.Body, 0, "fw.fd.Write", "fw.fd.Seek"))
	}
	// creation of a file: one write of maxSz zero bytes
	fd, err = g.Func(dir+"file_v2.go", "OpenFileV2")
	if err != nil {
		return err
	}
	g.StrList("order_OpenFileV2", c17Calls(g, fd.Body, 0, "fileops.OpenFile", "fw.Write", "fw.TrySync"))
	// meta: hard state and snapshot
	fd, err = g.Func(dir+"meta.go", "metaFile.StoreHardState")
	if err != nil {
		return err
	}
	g.StrList("order_StoreHardState", c17Calls(g, fd.Body, 2, "m.meta.WriteSlice", "m.meta.WriteAt", "m.SetUint"))
	fd, err = g.Func(dir+"meta.go", "metaFile.StoreSnapshot")
	if err != nil {
		return err
	}
	g.StrList("order_StoreSnapshot", append(c17Calls(g, fd.Body, 1, "m.meta.WriteSlice", "m.meta.WriteAt", "m.SetUint"),
		c17Calls(g, fd.Body, 1, "binary.BigEndian.AppendUint64", "binary.BigEndian.AppendUint32", "append")...))
	return nil
}

var c17Fingerprinted = [][2]string{
	{"entrylog.go", "entryLog.allEntries"}, {"entrylog.go", "entryLog.AddEntries"}, {"entrylog.go", "entryLog.slotGe"},
	{"entrylog.go", "entryLog.seekEntry"}, {"entrylog.go", "entryLog.Term"}, {"entrylog.go", "entryLog.deleteBefore"},
	{"entrylog.go", "entryLog.rotate"}, {"entrylog.go", "openEntryLogs"}, {"entrylog.go", "entryLog.firstIndex"},
	{"entrylog.go", "entryLog.lastIndex"}, {"entrylog.go", "entryLog.getEntryFile"},
	{"log.go", "logFile.slotGe"}, {"log.go", "logFile.lastEntry"}, {"log.go", "logFile.getRaftEntry"},
	{"log.go", "logFile.firstEmptySlot"}, {"log.go", "logFile.firstIndex"}, {"log.go", "getLogFiles"}, {"log.go", "marshalEntry"},
	{"storage.go", "Init"}, {"storage.go", "RaftDiskStorage.Entries"}, {"storage.go", "RaftDiskStorage.Term"},
	{"storage.go", "RaftDiskStorage.LastIndex"}, {"storage.go", "RaftDiskStorage.FirstIndex"}, {"storage.go", "RaftDiskStorage.firstIndex"},
	{"storage.go", "RaftDiskStorage.FirstIndexWithSnap"}, {"storage.go", "RaftDiskStorage.CreateSnapshot"},
	{"storage.go", "RaftDiskStorage.Save"}, {"storage.go", "RaftDiskStorage.DeleteBefore"}, {"storage.go", "RaftDiskStorage.Snapshot"},
	{"storage.go", "RaftDiskStorage.InitialState"},
	{"meta.go", "metaFile.StoreHardState"}, {"meta.go", "metaFile.StoreSnapshot"}, {"meta.go", "IsValidSnapshot"},
	{"meta.go", "metaFile.HardState"}, {"meta.go", "metaFile.snapshot"},
	{"file_v2.go", "FileWrapV2.WriteSlice"}, {"file_v2.go", "FileWrapV2.WriteAt"}, {"file_v2.go", "FileWrapV2.ReadSlice"},
	{"file_v2.go", "FileWrapV2.SliceSize"}, {"file_v2.go", "FileWrapV2.GetEntryData"}, {"file_v2.go", "OpenFileV2"},
}
