package main

import (
	"fmt"
	"go/ast"
	"strings"
)

// C14, index side of retention (called from genC14).
//
//	engine/index/tsi/index_builder.go  (*IndexBuilder).SetDuration   -> OG.C14.ixSetDuration
//	                                   (*IndexBuilder).Expired       -> OG.C14.ixExpired
//	                                   (*IndexBuilder).ExpiredCache  -> OG.C14.ixExpiredCache
//	                                   (*IndexBuilder).IsTierExpired -> OG.C14.ixTierExpired
//	engine/shard.go                    (*shard).IsTierExpired        -> OG.C14.shardTierExpired
//
// The index builder is the structure `IxBuilder` (the fields the four functions read or
// write); a setter is translated into a function that returns the updated structure: a bare
// `return` returns the receiver as it is at that point, falling off the end returns it too.
// So `if duration <= 0 { return }` in front of the assignment shows up in the definition, and
// the theorems about "the refreshed duration is what the index holds" are re-proved (or not).

// c14IxDefs emits the translated definitions (inside namespace OG.C14).
func c14IxDefs(g *Gen, t *Tr) error {
	g.P("structure IxBuilder where")
	g.P("  duration : Int")
	g.P("  endTime : Int")
	g.P("  cacheDuration : Int")
	g.P("  IndexColdDuration : Int")
	g.P("deriving DecidableEq, Repr\n")
	const file = "engine/index/tsi/index_builder.go"
	fd, err := g.Func(file, "IndexBuilder.SetDuration")
	if err != nil {
		return err
	}
	recv := ""
	if fd.Recv != nil && len(fd.Recv.List) == 1 && len(fd.Recv.List[0].Names) == 1 {
		recv = fd.Recv.List[0].Names[0].Name
	}
	if recv != "iBuilder" {
		return fmt.Errorf("%s SetDuration: receiver is %q", file, recv)
	}
	if fd.Type.Params == nil || len(fd.Type.Params.List) != 1 || len(fd.Type.Params.List[0].Names) != 1 ||
		fd.Type.Params.List[0].Names[0].Name != "duration" || g.Src(fd.Type.Params.List[0].Type) != "time.Duration" {
		return fmt.Errorf("%s SetDuration: unexpected parameters %s", file, g.Src(fd.Type))
	}
	ret := &ast.ReturnStmt{Results: []ast.Expr{ast.NewIdent(recv)}}
	body, err := t.stmts(c14Cps(fd.Body.List, ret), recv)
	if err != nil {
		return fmt.Errorf("%s SetDuration: %w", file, err)
	}
	g.P("def ixSetDuration (iBuilder : IxBuilder) (duration : Int) : IxBuilder :=\n  %s\n", body)
	for _, m := range [][2]string{{"IndexBuilder.Expired", "ixExpired"}, {"IndexBuilder.ExpiredCache", "ixExpiredCache"}, {"IndexBuilder.IsTierExpired", "ixTierExpired"}} {
		if err := t.Method(file, m[0], m[1], "(wallNow : Int) (iBuilder : IxBuilder)", "Bool"); err != nil {
			return err
		}
	}
	// the shard's tier test (hot -> warm -> cold moves): same shape, other duration
	old := t.Ident
	t.Ident = func(name string) string {
		switch name {
		case "s.durationInfo.TierDuration":
			return "tierDuration"
		case "s.endTime":
			return "endTime"
		}
		return ""
	}
	err = t.Method("engine/shard.go", "shard.IsTierExpired", "shardTierExpired", "(wallNow tierDuration endTime : Int)", "Bool")
	t.Ident = old
	return err
}

// c14Cps rewrites a statement list so that every path ends in a `return`: a bare `return`
// and the end of the list become `ret`; the statements that follow an `if` without `else`
// are copied into its body as well (the translator wants if/then/else terms).
func c14Cps(list []ast.Stmt, ret ast.Stmt) []ast.Stmt {
	if len(list) == 0 {
		return []ast.Stmt{ret}
	}
	s, rest := list[0], list[1:]
	cat := func(a, b []ast.Stmt) []ast.Stmt { return append(append([]ast.Stmt{}, a...), b...) }
	switch x := s.(type) {
	case *ast.ReturnStmt:
		if len(x.Results) == 0 {
			return []ast.Stmt{ret}
		}
		return []ast.Stmt{x}
	case *ast.IfStmt:
		c := *x
		c.Body = &ast.BlockStmt{List: c14Cps(cat(x.Body.List, rest), ret)}
		switch e := x.Else.(type) {
		case *ast.BlockStmt:
			c.Else = &ast.BlockStmt{List: c14Cps(cat(e.List, rest), ret)}
			return []ast.Stmt{&c}
		case *ast.IfStmt:
			c.Else = &ast.BlockStmt{List: c14Cps(cat([]ast.Stmt{e}, rest), ret)}
			return []ast.Stmt{&c}
		}
		return cat([]ast.Stmt{&c}, c14Cps(rest, ret))
	}
	return cat([]ast.Stmt{s}, c14Cps(rest, ret))
}

// c14IxShapes emits the source shapes of the index side the hand-written model transcribes
// (inside namespace OG.Gen.C14).
func c14IxShapes(g *Gen) error {
	for _, f := range [][3]string{
		{"engine/engine.go", "EngineImpl.ExpiredIndexes", "src_ExpiredIndexes"},
		{"engine/engine.go", "EngineImpl.ExpiredCacheIndexes", "src_ExpiredCacheIndexes"},
		{"engine/engine.go", "EngineImpl.UpdateIndexDurationInfo", "src_UpdateIndexDurationInfo"},
		{"engine/engine.go", "EngineImpl.containIdxid", "src_containIdxid"},
		{"engine/engine.go", "DBPTInfo.indexHeldByLiveShardNoLock", "src_indexHeldByLiveShard"},
		// how shard groups are assigned to index groups (Align.lean)
		{"lib/util/lifted/influx/meta/indexinfo.go", "normalisedIndexDuration", "src_normalisedIndexDuration"},
		{"lib/util/lifted/influx/meta/indexinfo.go", "IndexGroupInfo.Contains", "src_ixContains"},
		{"lib/util/lifted/influx/meta/indexinfo.go", "IndexGroupInfos.Less", "src_ixLess"},
		{"lib/util/lifted/influx/meta/data.go", "Data.newShardGroup", "src_newShardGroup"},
		{"lib/util/lifted/influx/meta/data.go", "Data.createIndexGroupIfNeeded", "src_createIndexGroupIfNeeded"},
		{"lib/util/lifted/influx/meta/data.go", "Data.CreateIndexGroup", "src_CreateIndexGroup"},
		{"lib/util/lifted/influx/meta/retentionpolicy.go", "RetentionPolicyInfo.ShardGroupByTimestampAndEngineType", "src_ShardGroupByTimestamp"},
		// schema clean after a prune (Schema.lean)
		{"lib/util/lifted/influx/meta/measurement.go", "MeasurementInfo.SchemaClean", "src_msSchemaClean"},
		{"lib/util/lifted/influx/meta/measurement.go", "TimeReserveHigh32", "src_TimeReserveHigh32"},
		{"lib/util/lifted/influx/meta/data.go", "Data.SchemaClean", "src_dataSchemaClean"},
		{"lib/util/lifted/influx/meta/data.go", "Data.UpdateSchema", "src_UpdateSchema"},
		// tier moves (Tier.lean)
		{"engine/engine.go", "EngineImpl.FetchShardsNeedChangeStore", "src_FetchShardsNeedChangeStore"},
		{"lib/util/lifted/influx/meta/retentionpolicy.go", "RetentionPolicyInfo.TierDuration", "src_TierDuration"},
		{"lib/util/lifted/influx/meta/retentionpolicy.go", "RetentionPolicyInfo.checkLeqThanDuration", "src_checkLeqThanDuration"},
		{"engine/partition.go", "DBPTInfo.getShardIndex", "src_getShardIndex"},
		{"services/retention/service.go", "Service.UpdateIndexDurationInfo", "src_svcUpdateIndexDurationInfo"},
		{"services/retention/service.go", "Service.DeleteByEngine", "src_DeleteByEngine"},
		{"lib/util/lifted/influx/meta/data.go", "Data.DeleteIndexGroup", "src_DeleteIndexGroup"},
		{"lib/util/lifted/influx/meta/data.go", "Data.pruneIndexGroups", "src_pruneIndexGroups"},
		{"lib/util/lifted/influx/meta/data.go", "Data.PruneGroups", "src_PruneGroups"},
		{"lib/util/lifted/influx/meta/indexinfo.go", "IndexGroupInfo.canDelete", "src_ixCanDelete"},
	} {
		fd, err := g.Func(f[0], f[1])
		if err != nil {
			return err
		}
		g.P("def %s : String := %s", f[2], leanStr(c14StripLogs(g, fd.Body)))
	}
	for _, c := range []string{"TierBegin", "Hot", "Warm", "Cold", "Moving"} {
		v, err := g.Const("lib/util/util.go", c)
		if err != nil {
			return err
		}
		g.P("def tier%s_src : String := %s", c, leanStr(v))
	}
	// DeleteIndex: what leaves the map, what is closed, what is removed (statistics and logging dropped)
	dfd, err := g.Func("engine/engine.go", "EngineImpl.DeleteIndex")
	if err != nil {
		return err
	}
	var del []string
	ast.Inspect(dfd.Body, func(n ast.Node) bool {
		switch x := n.(type) {
		case *ast.FuncLit:
			return false
		case *ast.CallExpr:
			s := g.Src(x)
			if strings.HasPrefix(s, "delete(dbPtInfo.") || strings.HasPrefix(s, "iBuild.Close") || strings.HasPrefix(s, "fileops.RemoveAll") {
				del = append(del, s)
			}
		case *ast.AssignStmt:
			s := g.Src(x)
			if strings.Contains(s, "dbPtInfo.indexBuilder[") || strings.Contains(s, "dbPtInfo.pendingIndexDeletes[") {
				del = append(del, s)
			}
		}
		return true
	})
	g.StrList("deleteIndex_effects", del)
	// the part of HandleLocalStorage after the shard loop: index loop and cache loop
	hfd, err := g.Func("services/retention/service.go", "Service.HandleLocalStorage")
	if err != nil {
		return err
	}
	var parts []string
	seenLoop := false
	for _, s := range hfd.Body.List {
		if _, ok := s.(*ast.RangeStmt); ok && !seenLoop {
			seenLoop = true
			continue
		}
		if !seenLoop {
			continue
		}
		if r, ok := s.(*ast.RangeStmt); ok {
			parts = append(parts, "for "+g.Src(r.Key)+" := range "+g.Src(r.X)+" "+c14StripLogs(g, r.Body))
		} else {
			parts = append(parts, g.Src(s))
		}
	}
	g.P("def src_HandleLocalStorage_indexes : String := %s", leanStr(strings.Join(parts, "; ")))
	// what IndexDurationInfos hands to the store
	ifd, err := g.Func("lib/util/lifted/influx/meta/data.go", "Data.IndexDurationInfos")
	if err != nil {
		return err
	}
	var as []string
	ast.Inspect(ifd.Body, func(n ast.Node) bool {
		if a, ok := n.(*ast.AssignStmt); ok && len(a.Lhs) == 1 {
			switch g.Src(a.Lhs[0]) {
			case "durationInfo.DurationInfo.Duration", "durationInfo.Ident.EndTime", "durationInfo.Ident.StartTime", "durationInfo.Ident.IndexGroupID", "durationInfo.Ident.IndexID":
				as = append(as, g.Src(a))
			}
		}
		return true
	})
	g.StrList("indexDurationInfos_assign", as)
	// how a new index builder gets its duration / end / cache duration (NewMergeSetIndex options)
	nfd, err := g.Func("engine/partition.go", "DBPTInfo.NewMergeSetIndex")
	if err != nil {
		return err
	}
	var opts []string
	ast.Inspect(nfd.Body, func(n ast.Node) bool {
		c, ok := n.(*ast.CallExpr)
		if !ok {
			return true
		}
		if se, ok := c.Fun.(*ast.SelectorExpr); ok {
			switch se.Sel.Name {
			case "Duration", "EndTime", "StartTime", "CacheDuration":
				if len(c.Args) == 1 {
					opts = append(opts, se.Sel.Name+"("+g.Src(c.Args[0])+")")
				}
			}
		}
		return true
	})
	g.StrList("newIndex_options", opts)
	// NewIndexBuilder: which option feeds which field
	bfd, err := g.Func("engine/index/tsi/index_builder.go", "NewIndexBuilder")
	if err != nil {
		return err
	}
	var flds []string
	ast.Inspect(bfd.Body, func(n ast.Node) bool {
		if kv, ok := n.(*ast.KeyValueExpr); ok {
			switch g.Src(kv.Key) {
			case "duration", "cacheDuration", "endTime", "startTime":
				flds = append(flds, g.Src(kv))
			}
		}
		return true
	})
	g.StrList("newIndexBuilder_fields", flds)
	return nil
}
