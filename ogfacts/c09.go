package main

import (
	"fmt"
	"go/ast"
	"go/token"
	"strings"
)

func init() { register("C09", genC09) }

// genC09 regenerates, from /repo's working tree:
//
//	engine/iterators_helper.go  matchPreAgg            -> OG.C09.matchPreAgg   (store side: which
//	                                                     cursors serve stored statistics)
//	engine/executor/schema.go   QuerySchema.MatchPreAgg -> OG.C09.schemaMatchPreAgg (planner side)
//	engine/executor/logic_plan.go CreateSeriesPlan: its first guard -> OG.C09.seriesPlanSkipped
//	engine/immutable/tssp_file_meta.go ChunkMeta.allRowsInRange -> OG.C09.allRowsInRange
//	lib/util/util.go            TimeRange.Overlaps      -> OG.C09.overlaps
//	engine/hybridqp/complie_v2.go the hint constants    -> inductive OG.C09.Hint
//
// as Lean definitions (the sequence of `if … return false` becomes nested if-then-else over
// a record of the query's shape), and as data: the list of calls that have statistics
// (NewPreAggregateCallMapping), the field order of the statistics record (const block of
// pre_aggregation.go), the type -> builder table of ColumnBuilder.BuildPreAgg, and the source
// text of the accumulate / merge / tie-breaking code the hand-written model transcribes.
func genC09(g *Gen) error {
	g.Header("engine/iterators_helper.go", "engine/executor/schema.go", "engine/executor/logic_plan.go",
		"engine/immutable/tssp_file_meta.go", "engine/immutable/pre_aggregation.go", "engine/immutable/column_builder.go",
		"engine/immutable/reader.go", "engine/immutable/first_last_reader.go", "lib/util/util.go", "engine/hybridqp/complie_v2.go")

	// ---- hint constants -----------------------------------------------------------------
	f, err := g.Parse("engine/hybridqp/complie_v2.go")
	if err != nil {
		return err
	}
	var hints []string
	for _, d := range f.Decls {
		gd, ok := d.(*ast.GenDecl)
		if !ok || gd.Tok != token.CONST {
			continue
		}
		isHint := false
		for _, sp := range gd.Specs {
			vs := sp.(*ast.ValueSpec)
			if vs.Type != nil && typeName(vs.Type) == "HintType" {
				isHint = true
			}
		}
		if !isHint {
			continue
		}
		for _, sp := range gd.Specs {
			for _, n := range sp.(*ast.ValueSpec).Names {
				hints = append(hints, n.Name)
			}
		}
	}
	if len(hints) == 0 {
		return fmt.Errorf("hint constants not found")
	}
	g.P("namespace OG.C09\n")
	g.P("/-- `hybridqp.HintType` (const block of complie_v2.go, in order). -/")
	g.P("inductive Hint where")
	for _, h := range hints {
		g.P("  | %s", h)
	}
	g.P("deriving DecidableEq, Repr\n")
	g.P("/-- What the eligibility tests look at. -/")
	g.P("structure QueryShape where")
	g.P("  preAggEnabled : Bool   -- config.GetCommon().PreAggEnabled")
	g.P("  hasCall : Bool         -- schema.HasCall()")
	g.P("  hasNonPreCall : Bool   -- schema.HasNonPreCall(): a call outside the statistics set")
	g.P("  hasInterval : Bool     -- schema.HasInterval(): GROUP BY time(...)")
	g.P("  ctxFieldCond : Bool    -- ctx.hasFieldCondition(): the cursor context filters on a field")
	g.P("  schemaFieldCond : Bool -- schema.HasFieldCondition()")
	g.P("  isProm : Bool          -- schema.Options().IsPromQuery()")
	g.P("  hint : Hint            -- schema.Options().GetHintType()")
	g.P("deriving DecidableEq, Repr\n")

	t := &Tr{g: g}
	t.Ident = func(name string) string {
		switch name {
		case "config.GetCommon().PreAggEnabled":
			return "q.preAggEnabled"
		case "tr.Min", "t.Min":
			return "trMin"
		case "tr.Max", "t.Max":
			return "trMax"
		case "min":
			return "cmin"
		case "max":
			return "cmax"
		}
		if strings.HasPrefix(name, "hybridqp.") {
			for _, h := range hints {
				if name == "hybridqp."+h {
					return "Hint." + h
				}
			}
		}
		return ""
	}
	t.Call = func(fun, method, recv string, args []string) string {
		if len(args) != 0 {
			return ""
		}
		switch fun {
		case "schema.Options", "qs.Options", "b.schema.Options":
			return "q"
		case "schema.HasCall", "qs.HasCall":
			return "q.hasCall"
		case "schema.HasNonPreCall", "qs.HasNonPreCall":
			return "q.hasNonPreCall"
		case "schema.HasInterval", "qs.HasInterval":
			return "q.hasInterval"
		case "ctx.hasFieldCondition":
			return "q.ctxFieldCond"
		case "schema.HasFieldCondition", "qs.HasFieldCondition":
			return "q.schemaFieldCond"
		case "schema.Options().IsPromQuery", "qs.Options().IsPromQuery":
			return "q.isProm"
		case "schema.Options().GetHintType", "qs.Options().GetHintType", "b.schema.Options().GetHintType":
			return "q.hint"
		case "b.schema.MatchPreAgg":
			return "(schemaMatchPreAgg q)"
		}
		return ""
	}
	if err := t.Method("engine/iterators_helper.go", "matchPreAgg", "matchPreAgg", "(q : QueryShape)", "Bool"); err != nil {
		return err
	}
	if err := t.Method("engine/executor/schema.go", "QuerySchema.MatchPreAgg", "schemaMatchPreAgg", "(q : QueryShape)", "Bool"); err != nil {
		return err
	}
	// CreateSeriesPlan: `if b.schema.MatchPreAgg() && hint != Exact { return nil, nil }`
	fd, err := g.Func("engine/executor/logic_plan.go", "LogicalPlanBuilderImpl.CreateSeriesPlan")
	if err != nil {
		return err
	}
	first, ok := fd.Body.List[0].(*ast.IfStmt)
	if !ok || len(first.Body.List) != 1 || g.Src(first.Body.List[0]) != "return nil, nil" {
		return fmt.Errorf("CreateSeriesPlan: first statement is not the `return nil, nil` guard")
	}
	cond, err := t.expr(first.Cond)
	if err != nil {
		return fmt.Errorf("CreateSeriesPlan guard: %w", err)
	}
	g.P("/-- guard of `CreateSeriesPlan`: no per-series plan is built (statistics are served). -/")
	g.P("def seriesPlanSkipped (q : QueryShape) : Bool :=\n  %s\n", cond)

	// ChunkMeta.allRowsInRange: `min, max := m.MinMaxTime(); return tr.Min <= min && tr.Max >= max`
	fd, err = g.Func("engine/immutable/tssp_file_meta.go", "ChunkMeta.allRowsInRange")
	if err != nil {
		return err
	}
	if len(fd.Body.List) != 2 || g.Src(fd.Body.List[0]) != "min, max := m.MinMaxTime()" {
		return fmt.Errorf("allRowsInRange: unexpected shape %s", g.Src(fd.Body))
	}
	ret, ok2 := fd.Body.List[1].(*ast.ReturnStmt)
	if !ok2 || len(ret.Results) != 1 {
		return fmt.Errorf("allRowsInRange: unexpected return")
	}
	e, err := t.expr(ret.Results[0])
	if err != nil {
		return err
	}
	g.P("/-- `ChunkMeta.allRowsInRange`: the chunk's statistics may be used. cmin/cmax = `MinMaxTime()`. -/")
	g.P("def allRowsInRange (trMin trMax cmin cmax : Int) : Bool :=\n  %s\n", e)
	if err := t.Method("lib/util/util.go", "TimeRange.Overlaps", "overlaps", "(trMin trMax cmin cmax : Int)", "Bool"); err != nil {
		return err
	}
	g.P("end OG.C09\n")

	// ---- data ---------------------------------------------------------------------------
	g.GenNS()
	g.StrList("hintNames", hints)

	// calls that have statistics: mapping.mapCalls["x"] = struct{}{}
	fd, err = g.Func("engine/executor/schema.go", "NewPreAggregateCallMapping")
	if err != nil {
		return err
	}
	var calls []string
	ast.Inspect(fd.Body, func(n ast.Node) bool {
		as, ok := n.(*ast.AssignStmt)
		if !ok || len(as.Lhs) != 1 {
			return true
		}
		ix, ok := as.Lhs[0].(*ast.IndexExpr)
		if !ok || g.Src(ix.X) != "mapping.mapCalls" {
			return true
		}
		if bl, ok := ix.Index.(*ast.BasicLit); ok && bl.Kind == token.STRING {
			calls = append(calls, strings.Trim(bl.Value, "\""))
		}
		return true
	})
	g.StrList("preAggCalls", calls)

	// field order of the statistics record
	f, err = g.Parse("engine/immutable/pre_aggregation.go")
	if err != nil {
		return err
	}
	var statIdx []string
	for _, d := range f.Decls {
		gd, ok := d.(*ast.GenDecl)
		if !ok || gd.Tok != token.CONST || len(gd.Specs) == 0 {
			continue
		}
		if vs := gd.Specs[0].(*ast.ValueSpec); len(vs.Names) == 1 && vs.Names[0].Name == "minIndex" {
			for _, sp := range gd.Specs {
				for _, n := range sp.(*ast.ValueSpec).Names {
					statIdx = append(statIdx, n.Name)
				}
			}
		}
	}
	g.StrList("statFields", statIdx)

	rows, err := g.SwitchTable("engine/immutable/column_builder.go", "ColumnBuilder.BuildPreAgg")
	if err != nil {
		return err
	}
	g.PairList("buildPreAggTable", rows)
	rows, err = g.SwitchTable("engine/immutable/tssp_file.go", "tsspFileReader.readSegmentMetaRecord")
	if err != nil {
		return err
	}
	var heads [][2]string
	for _, r := range rows {
		b := r[1]
		if i := strings.Index(b, ";"); i > 0 {
			b = b[:i]
		}
		heads = append(heads, [2]string{r[0], b})
	}
	g.PairList("metaReadTable", heads)

	src := func(name, rel, fn string) error {
		fd, err := g.Func(rel, fn)
		if err != nil {
			return err
		}
		g.P("def %s : String := %s", name, leanStr(g.Src(fd.Body)))
		return nil
	}
	for _, s := range [][3]string{
		{"src_int_addValues", "engine/immutable/pre_aggregation.go", "IntegerPreAgg.addValues"},
		{"src_float_addValues", "engine/immutable/pre_aggregation.go", "FloatPreAgg.addValues"},
		{"src_int_addMin", "engine/immutable/pre_aggregation.go", "IntegerPreAgg.addMin"},
		{"src_int_addMax", "engine/immutable/pre_aggregation.go", "IntegerPreAgg.addMax"},
		{"src_float_addMin", "engine/immutable/pre_aggregation.go", "FloatPreAgg.addMin"},
		{"src_float_addMax", "engine/immutable/pre_aggregation.go", "FloatPreAgg.addMax"},
		{"src_firstLast_fromPreAgg", "engine/immutable/first_last_reader.go", "FirstLastReader.readFirstOrLastFromPreAgg"},
		{"src_firstLast_readRowIndex", "engine/immutable/first_last_reader.go", "FirstLastReader.readRowIndex"},
		{"src_readFirstRowIndex", "engine/immutable/reader.go", "readFirstRowIndex"},
		{"src_readLastRowIndex", "engine/immutable/reader.go", "readLastRowIndex"},
		{"src_findRowIdxRange", "engine/immutable/reader.go", "findRowIdxRange"},
		{"src_countMeta_skeleton", "engine/immutable/reader.go", "AggregateData"},
		{"src_string_addValues", "engine/immutable/pre_aggregation.go", "StringPreAgg.addValues"},
		{"src_bool_addValues", "engine/immutable/pre_aggregation.go", "BooleanPreAgg.addValues"},
		{"src_int_merge", "engine/immutable/pre_aggregation.go", "IntegerPreAgg.merge"},
		{"src_float_merge", "engine/immutable/pre_aggregation.go", "FloatPreAgg.merge"},
		{"src_isPreAggRead", "engine/immutable/location.go", "Location.isPreAggRead"},
		{"src_compareMin", "engine/immutable/reader.go", "compareMin"},
		{"src_minBool", "engine/immutable/reader.go", "minBool"},
		{"src_maxBool", "engine/immutable/reader.go", "maxBool"},
		{"src_int_marshal", "engine/immutable/pre_aggregation.go", "IntegerPreAgg.marshal"},
		{"src_float_marshal", "engine/immutable/pre_aggregation.go", "FloatPreAgg.marshal"},
		{"src_bool_marshal", "engine/immutable/pre_aggregation.go", "BooleanPreAgg.marshal"},
		{"src_string_marshal", "engine/immutable/pre_aggregation.go", "StringPreAgg.marshal"},
		{"src_time_marshal", "engine/immutable/pre_aggregation.go", "TimePreAgg.marshal"},
		{"src_firstLast_unmarshalPreAgg", "engine/immutable/first_last_reader.go", "FirstLastReader.unmarshalPreAgg"},
		{"src_mergeIntegerPreAgg", "engine/immutable/stream_compact.go", "StreamIterators.mergeIntegerPreAgg"},
		{"src_mergeFloatPreAgg", "engine/immutable/stream_compact.go", "StreamIterators.mergeFloatPreAgg"},
		{"src_mergeBooleanPreAgg", "engine/immutable/stream_compact.go", "StreamIterators.mergeBooleanPreAgg"},
		{"src_mergeStringPreAgg", "engine/immutable/stream_compact.go", "StreamIterators.mergeStringPreAgg"},
		{"src_readMemTableMetaRecord", "engine/iterators_helper.go", "recordIter.readMemTableMetaRecord"},
		{"src_setIntColumnMeta", "engine/iterators_helper.go", "recordIter.setIntColumnMeta"},
		{"src_setBoolColumnMeta", "engine/iterators_helper.go", "recordIter.setBoolColumnMeta"},
		{"src_countMeta", "engine/immutable/reader.go", "countMeta"},
		{"src_sumMeta", "engine/immutable/reader.go", "sumMeta"},
		{"src_sumRangeValues", "engine/immutable/reader.go", "sumRangeValues"},
		{"src_readTimeCount", "engine/immutable/reader.go", "readTimeCount"},
	} {
		if err := src(s[0], s[1], s[2]); err != nil {
			return err
		}
	}
	// the tie-breaking conditions of the record-level merge (AggregateData): every `if`
	// condition of minMeta / maxMeta / firstMeta / lastMeta, in source order
	for _, fn := range []string{"minMeta", "maxMeta", "firstMeta", "lastMeta", "compareMin"} {
		fd, err := g.Func("engine/immutable/reader.go", fn)
		if err != nil {
			return err
		}
		var conds []string
		ast.Inspect(fd.Body, func(n ast.Node) bool {
			if is, ok := n.(*ast.IfStmt); ok {
				conds = append(conds, g.Src(is.Cond))
			}
			return true
		})
		g.StrList("conds_"+fn, conds)
	}
	// the decisions of the chunk readers (which `if`s, in order): stored statistics when
	// allRowsInRange, data otherwise; segments that do not overlap are skipped
	for _, fn := range []string{"readSumCount", "readMinMax", "readSumCountFromData", "readMinMaxFromData", "loopMinRowindex", "loopMaxRowindex"} {
		fd, err := g.Func("engine/immutable/reader.go", fn)
		if err != nil {
			return err
		}
		var conds []string
		ast.Inspect(fd.Body, func(n ast.Node) bool {
			if is, ok := n.(*ast.IfStmt); ok {
				conds = append(conds, g.Src(is.Cond))
			}
			return true
		})
		g.StrList("conds_"+fn, conds)
	}
	for _, fn := range [][2]string{{"engine/immutable/location.go", "Location.readData"}, {"engine/immutable/tssp_file.go", "tsspFileReader.ReadData"},
		{"engine/immutable/first_last_reader.go", "FirstLastReader.Read"}} {
		fd, err := g.Func(fn[0], fn[1])
		if err != nil {
			return err
		}
		var conds []string
		ast.Inspect(fd.Body, func(n ast.Node) bool {
			if is, ok := n.(*ast.IfStmt); ok {
				conds = append(conds, g.Src(is.Cond))
			}
			return true
		})
		name := fn[1][strings.Index(fn[1], ".")+1:]
		g.StrList("conds_"+strings.Split(fn[1], ".")[0]+"_"+name, conds)
	}
	// the time a partially covered segment reports for first/last without nulls
	fd, err = g.Func("engine/immutable/first_last_reader.go", "FirstLastReader.Read")
	if err != nil {
		return err
	}
	var tms []string
	ast.Inspect(fd.Body, func(n ast.Node) bool {
		if as, ok := n.(*ast.AssignStmt); ok && len(as.Lhs) == 1 && g.Src(as.Lhs[0]) == "tm" {
			tms = append(tms, g.Src(as))
		}
		return true
	})
	g.StrList("firstLast_tm_assignments", tms)
	g.Footer()
	return nil
}
