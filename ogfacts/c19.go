package main

// C19 — facts about the HTTP front end: every Route{…} composite literal that reaches
// Handler.AddRoutes (httpd package and any other package of the repository that calls
// AddRoutes), the Go signature of each handler (AddRoutes wraps a handler with
// `authenticate` iff its signature carries the meta.User parameter), the pre-mux dispatch of
// Handler.ServeHTTP, the authorizers each handler reaches with its `user` argument, the shape
// of ParseCredentials / authenticate / AuthorizeDatabase / AuthorizeQuery, and the
// statement -> required-privilege table of the InfluxQL AST.

import (
	"encoding/json"
	"fmt"
	"go/ast"
	"go/token"
	"os"
	"path/filepath"
	"sort"
	"strconv"
	"strings"
)

func init() { register("C19", genC19) }

const (
	c19Httpd   = "lib/util/lifted/influx/httpd/"
	c19Module  = "github.com/openGemini/openGemini/"
	c19MetaPkg = "github.com/openGemini/openGemini/lib/util/lifted/influx/meta"
)

type c19Pkg struct {
	g     *Gen
	dir   string
	files map[string]*ast.File // rel path -> file
	names []string
	// functions by key: "Recv.Name" for methods, "Name" for functions
	funcs  map[string]*ast.FuncDecl
	fileOf map[*ast.FuncDecl]*ast.File
}

// c19Files lists the non-test Go files of a repository directory, honouring VERIF_OVERLAY
// (files added or replaced by the overlay are seen, files replaced by "" are dropped).
func c19Files(g *Gen, relDir string) ([]string, error) {
	abs := filepath.Join(g.Repo, relDir)
	set := map[string]bool{}
	ents, err := os.ReadDir(abs)
	if err != nil {
		return nil, err
	}
	for _, e := range ents {
		n := e.Name()
		if e.IsDir() || !strings.HasSuffix(n, ".go") || strings.HasSuffix(n, "_test.go") {
			continue
		}
		set[n] = true
	}
	if ov := os.Getenv("VERIF_OVERLAY"); ov != "" {
		if b, err := os.ReadFile(ov); err == nil {
			var o struct{ Replace map[string]string }
			if json.Unmarshal(b, &o) == nil {
				for k, v := range o.Replace {
					if filepath.Dir(k) != filepath.Clean(abs) {
						continue
					}
					n := filepath.Base(k)
					if !strings.HasSuffix(n, ".go") || strings.HasSuffix(n, "_test.go") {
						continue
					}
					if v == "" {
						delete(set, n)
					} else {
						set[n] = true
					}
				}
			}
		}
	}
	var out []string
	for n := range set {
		out = append(out, filepath.Join(relDir, n))
	}
	sort.Strings(out)
	return out, nil
}

func c19Load(g *Gen, relDir string) (*c19Pkg, error) {
	names, err := c19Files(g, relDir)
	if err != nil {
		return nil, err
	}
	p := &c19Pkg{g: g, dir: relDir, files: map[string]*ast.File{}, funcs: map[string]*ast.FuncDecl{}, fileOf: map[*ast.FuncDecl]*ast.File{}}
	for _, n := range names {
		f, err := g.Parse(n)
		if err != nil {
			return nil, err
		}
		p.files[n] = f
		p.names = append(p.names, n)
		for _, d := range f.Decls {
			fd, ok := d.(*ast.FuncDecl)
			if !ok {
				continue
			}
			key := fd.Name.Name
			if fd.Recv != nil && len(fd.Recv.List) == 1 {
				key = typeName(fd.Recv.List[0].Type) + "." + key
			}
			p.funcs[key] = fd
			p.fileOf[fd] = f
		}
	}
	return p, nil
}

// importAlias returns the local name under which file f imports path ("" if it does not).
func importAlias(f *ast.File, path string) string {
	for _, im := range f.Imports {
		ip, _ := strconv.Unquote(im.Path.Value)
		if ip != path {
			continue
		}
		if im.Name != nil {
			return im.Name.Name
		}
		return filepath.Base(path)
	}
	return ""
}

func importPath(f *ast.File, alias string) string {
	for _, im := range f.Imports {
		ip, _ := strconv.Unquote(im.Path.Value)
		name := filepath.Base(ip)
		if im.Name != nil {
			name = im.Name.Name
		}
		if name == alias {
			return ip
		}
	}
	return ""
}

// sigClass classifies a handler's function type the way AddRoutes' two type assertions do:
// "user"  = func(http.ResponseWriter, *http.Request, meta.User)  -> wrapped by authenticate
// "plain" = func(http.ResponseWriter, *http.Request)             -> installed as is
// "other" = anything else (neither assertion matches: nil handler)
func sigClass(g *Gen, f *ast.File, ft *ast.FuncType) (class string, userParam string) {
	if ft.Results != nil && len(ft.Results.List) > 0 {
		return "other", ""
	}
	var types []ast.Expr
	var names []string
	for _, fl := range ft.Params.List {
		n := len(fl.Names)
		if n == 0 {
			n = 1
		}
		for i := 0; i < n; i++ {
			types = append(types, fl.Type)
			if i < len(fl.Names) {
				names = append(names, fl.Names[i].Name)
			} else {
				names = append(names, "_")
			}
		}
	}
	httpAlias := importAlias(f, "net/http")
	if len(types) < 2 || g.Src(types[0]) != httpAlias+".ResponseWriter" || g.Src(types[1]) != "*"+httpAlias+".Request" {
		return "other", ""
	}
	if len(types) == 2 {
		return "plain", ""
	}
	if len(types) == 3 {
		if a := importAlias(f, c19MetaPkg); a != "" && g.Src(types[2]) == a+".User" {
			return "user", names[2]
		}
	}
	return "other", ""
}

// userParams lists the names of all parameters of fd whose type is meta.User.
func userParamIndex(g *Gen, f *ast.File, fd *ast.FuncDecl) map[int]string {
	out := map[int]string{}
	a := importAlias(f, c19MetaPkg)
	if a == "" {
		return out
	}
	i := 0
	for _, fl := range fd.Type.Params.List {
		n := len(fl.Names)
		if n == 0 {
			n = 1
		}
		for k := 0; k < n; k++ {
			if g.Src(fl.Type) == a+".User" && k < len(fl.Names) {
				out[i] = fl.Names[k].Name
			}
			i++
		}
	}
	return out
}

// authzReached: which authorizers a function reaches with the user value held in `param`:
//
//	"admin"  — `if !<user>.AuthorizeUnrestricted() { … return }`
//	"write"  — h.WriteAuthorizer.AuthorizeWrite(<user>.ID(), db)
//	"write@db" — the same, after the handler looked the database up (MetaClient.Database / validateDatabase)
//	"query"  — h.QueryAuthorizer.AuthorizeQuery(<user>, q, db)
//
// following calls inside the package that pass the user value on.
func (p *c19Pkg) authzReached(fd *ast.FuncDecl, body ast.Node, param string, seen map[string]bool, out map[string]bool, dbChecked bool) {
	g := p.g
	isUser := func(e ast.Expr) bool {
		id, ok := e.(*ast.Ident)
		return ok && id.Name == param
	}
	isUserID := func(e ast.Expr) bool {
		c, ok := e.(*ast.CallExpr)
		if !ok {
			return false
		}
		s, ok := c.Fun.(*ast.SelectorExpr)
		return ok && s.Sel.Name == "ID" && isUser(s.X)
	}
	ast.Inspect(body, func(n ast.Node) bool {
		switch x := n.(type) {
		case *ast.IfStmt:
			if u, ok := x.Cond.(*ast.UnaryExpr); ok && u.Op == token.NOT {
				if c, ok := u.X.(*ast.CallExpr); ok {
					if s, ok := c.Fun.(*ast.SelectorExpr); ok && s.Sel.Name == "AuthorizeUnrestricted" && isUser(s.X) {
						if len(x.Body.List) > 0 {
							if _, ok := x.Body.List[len(x.Body.List)-1].(*ast.ReturnStmt); ok {
								out["admin"] = true
							}
						}
					}
				}
			}
		case *ast.CallExpr:
			fun := g.Src(x.Fun)
			switch {
			case strings.HasSuffix(fun, ".MetaClient.Database") || strings.HasSuffix(fun, ".validateDatabase"):
				dbChecked = true // the handler looks the database up (404 when absent) before it authorizes
			case strings.HasSuffix(fun, ".WriteAuthorizer.AuthorizeWrite") && len(x.Args) == 2 && isUserID(x.Args[0]):
				if dbChecked {
					out["write@db"] = true
				} else {
					out["write"] = true
				}
			case strings.HasSuffix(fun, ".QueryAuthorizer.AuthorizeQuery") && len(x.Args) == 3 && isUser(x.Args[0]):
				out["query"] = true
			}
			// follow calls that hand the user on
			var callee *ast.FuncDecl
			switch f := x.Fun.(type) {
			case *ast.SelectorExpr:
				if id, ok := f.X.(*ast.Ident); ok && id.Name == "h" {
					callee = p.funcs["Handler."+f.Sel.Name]
				}
			case *ast.Ident:
				callee = p.funcs[f.Name]
			}
			if callee != nil && callee.Body != nil {
				idx := userParamIndex(g, p.fileOf[callee], callee)
				for i, a := range x.Args {
					if isUser(a) {
						if pn, ok := idx[i]; ok {
							key := callee.Name.Name + "#" + pn
							if !seen[key] {
								seen[key] = true
								p.authzReached(callee, callee.Body, pn, seen, out, dbChecked)
							}
						}
					}
				}
			}
		}
		return true
	})
}

type c19Route struct {
	src, cond, name, method, pattern, compress, logging, handler, sig string
	authz                                                             []string
	lit                                                               string // body of a func-literal handler
}

// leanChars renders a string as a Lean `List Char` literal.
func leanChars(s string) string {
	var cs []string
	for _, r := range s {
		switch r {
		case '\'':
			cs = append(cs, `'\''`)
		case '\\':
			cs = append(cs, `'\\'`)
		default:
			if r < 0x20 || r == 0x7f {
				cs = append(cs, fmt.Sprintf("(Char.ofNat %d)", r))
			} else {
				cs = append(cs, "'"+string(r)+"'")
			}
		}
	}
	return "[" + strings.Join(cs, ", ") + "]"
}

func c19Unquote(g *Gen, e ast.Expr) string {
	if b, ok := e.(*ast.BasicLit); ok && b.Kind == token.STRING {
		if s, err := strconv.Unquote(b.Value); err == nil {
			return s
		}
	}
	return "?" + g.Src(e)
}

// resolveHandler fills handler/sig/authz of a route from the HandlerFunc expression.
func (p *c19Pkg) resolveHandler(f *ast.File, e ast.Expr, r *c19Route) error {
	g := p.g
	switch x := e.(type) {
	case *ast.SelectorExpr:
		// h.serveX — a method value of *Handler
		if id, ok := x.X.(*ast.Ident); ok {
			if fd := p.funcs["Handler."+x.Sel.Name]; fd != nil && importPath(f, id.Name) == "" {
				r.handler = x.Sel.Name
				cls, up := sigClass(g, p.fileOf[fd], fd.Type)
				r.sig = cls
				if cls == "user" && fd.Body != nil {
					out := map[string]bool{}
					p.authzReached(fd, fd.Body, up, map[string]bool{fd.Name.Name + "#" + up: true}, out, false)
					for k := range out {
						r.authz = append(r.authz, k)
					}
					sort.Strings(r.authz)
				}
				return nil
			}
		}
	case *ast.FuncLit:
		r.handler = "<funclit>"
		r.sig, _ = sigClass(g, f, x.Type)
		r.lit = g.Src(x.Body)
		return nil
	case *ast.CallExpr:
		// pkg.Constructor(...) returning a handler function: classify its result type
		if s, ok := x.Fun.(*ast.SelectorExpr); ok {
			if id, ok := s.X.(*ast.Ident); ok {
				if ip := importPath(f, id.Name); strings.HasPrefix(ip, c19Module) {
					q, err := c19Load(g, strings.TrimPrefix(ip, c19Module)+"/")
					if err != nil {
						return err
					}
					if fd := q.funcs[s.Sel.Name]; fd != nil && fd.Type.Results != nil && len(fd.Type.Results.List) == 1 {
						if ft, ok := fd.Type.Results.List[0].Type.(*ast.FuncType); ok {
							r.handler = id.Name + "." + s.Sel.Name + "(…)"
							r.sig, _ = sigClass(g, q.fileOf[fd], ft)
							return nil
						}
					}
				}
			}
		}
	}
	return fmt.Errorf("C19: cannot resolve the handler expression %q of route %s %s", g.Src(e), r.method, r.pattern)
}

// routesIn collects the Route literals of one package. routeType is how the package spells
// the type ("Route" inside httpd, "httpd.Route" outside).
func (p *c19Pkg) routesIn(routeType string) ([]c19Route, error) {
	g := p.g
	var out []c19Route
	for _, fn := range p.names {
		f := p.files[fn]
		for _, d := range f.Decls {
			fd, ok := d.(*ast.FuncDecl)
			if !ok || fd.Body == nil {
				continue
			}
			src := fn + ":" + fd.Name.Name
			var lits []*ast.CompositeLit
			ast.Inspect(fd.Body, func(n ast.Node) bool {
				cl, ok := n.(*ast.CompositeLit)
				if !ok || cl.Type == nil {
					return true
				}
				t := g.Src(cl.Type)
				if t == routeType {
					lits = append(lits, cl)
					return false
				}
				if t == "[]"+routeType {
					for _, e := range cl.Elts {
						if el, ok := e.(*ast.CompositeLit); ok {
							lits = append(lits, el)
						}
					}
					return false
				}
				return true
			})
			for _, cl := range lits {
				r := c19Route{src: src}
				var hf ast.Expr
				if len(cl.Elts) > 0 {
					if _, keyed := cl.Elts[0].(*ast.KeyValueExpr); keyed {
						r.compress, r.logging = "false", "false"
						for _, e := range cl.Elts {
							kv := e.(*ast.KeyValueExpr)
							switch g.Src(kv.Key) {
							case "Name":
								r.name = c19Unquote(g, kv.Value)
							case "Method":
								r.method = c19Unquote(g, kv.Value)
							case "Pattern":
								r.pattern = c19Unquote(g, kv.Value)
							case "CompressSupported":
								r.compress = g.Src(kv.Value)
							case "LoggingEnabled":
								r.logging = g.Src(kv.Value)
							case "HandlerFunc":
								hf = kv.Value
							}
						}
					} else {
						if len(cl.Elts) != 6 {
							return nil, fmt.Errorf("C19: %s: positional Route literal with %d fields", src, len(cl.Elts))
						}
						r.name = c19Unquote(g, cl.Elts[0])
						r.method = c19Unquote(g, cl.Elts[1])
						r.pattern = c19Unquote(g, cl.Elts[2])
						r.compress = g.Src(cl.Elts[3])
						r.logging = g.Src(cl.Elts[4])
						hf = cl.Elts[5]
					}
				}
				if hf == nil || g.Src(hf) == "nil" {
					// handler assigned later: <var>.HandlerFunc = E under some condition
					n := 0
					var walk func(list []ast.Stmt, cond string) error
					walk = func(list []ast.Stmt, cond string) error {
						for _, st := range list {
							switch s := st.(type) {
							case *ast.AssignStmt:
								if len(s.Lhs) == 1 && len(s.Rhs) == 1 {
									if sel, ok := s.Lhs[0].(*ast.SelectorExpr); ok && sel.Sel.Name == "HandlerFunc" {
										rr := r
										rr.cond = cond
										if err := p.resolveHandler(f, s.Rhs[0], &rr); err != nil {
											return err
										}
										out = append(out, rr)
										n++
									}
								}
							case *ast.IfStmt:
								c := g.Src(s.Cond)
								if err := walk(s.Body.List, strings.TrimSpace(cond+" "+c)); err != nil {
									return err
								}
								if eb, ok := s.Else.(*ast.BlockStmt); ok {
									if err := walk(eb.List, strings.TrimSpace(cond+" !("+c+")")); err != nil {
										return err
									}
								}
							}
						}
						return nil
					}
					if err := walk(fd.Body.List, ""); err != nil {
						return nil, err
					}
					if n == 0 {
						return nil, fmt.Errorf("C19: %s: route %s %s has no handler", src, r.method, r.pattern)
					}
					continue
				}
				if err := p.resolveHandler(f, hf, &r); err != nil {
					return nil, err
				}
				out = append(out, r)
			}
		}
	}
	return out, nil
}

// relOf: repository-relative name of the file that holds fd (the overlay's replacement file may be named differently).
func (p *c19Pkg) relOf(fd *ast.FuncDecl) string {
	f := p.fileOf[fd]
	for rel, af := range p.files {
		if af == f {
			return rel
		}
	}
	return ""
}

func genC19(g *Gen) error {
	g.Header(c19Httpd+"*.go", "app/**/*.go (AddRoutes callers)", "lib/util/lifted/influx/meta/{userinfo,authorizer}.go", "lib/util/lifted/influx/influxql/ast.go")
	g.GenNS()
	p, err := c19Load(g, c19Httpd)
	if err != nil {
		return err
	}
	routes, err := p.routesIn("Route")
	if err != nil {
		return err
	}
	// other packages of the repository that register routes on the handler
	var external []string
	for _, root := range []string{"app", "services", "lib", "engine", "coordinator"} {
		filepath.Walk(filepath.Join(g.Repo, root), func(path string, info os.FileInfo, err error) error {
			if err != nil || info.IsDir() || !strings.HasSuffix(path, ".go") || strings.HasSuffix(path, "_test.go") {
				return nil
			}
			rel, _ := filepath.Rel(g.Repo, path)
			if filepath.Dir(rel)+"/" == c19Httpd {
				return nil
			}
			b, err := os.ReadFile(path)
			if err == nil && strings.Contains(string(b), ".AddRoutes(") {
				external = append(external, filepath.Dir(rel)+"/")
			}
			return nil
		})
	}
	sort.Strings(external)
	var callers []string
	done := map[string]bool{}
	for _, dir := range external {
		if done[dir] {
			continue
		}
		done[dir] = true
		q, err := c19Load(g, dir)
		if err != nil {
			return err
		}
		rs, err := q.routesIn("httpd.Route")
		if err != nil {
			return err
		}
		routes = append(routes, rs...)
		callers = append(callers, dir)
	}

	g.P("structure RouteFact where")
	g.P("  src : String       -- file:function holding the Route literal")
	g.P("  cond : String      -- condition under which this handler is the one installed (\"\" = always)")
	g.P("  name : String\n  method : String\n  pattern : String\n  compress : String\n  logging : String")
	g.P("  handler : String   -- Handler method name, \"<funclit>\" or constructor call")
	g.P("  sig : String       -- \"user\" = has the meta.User parameter, \"plain\" = 2 arguments, \"other\"")
	g.P("  authz : List String -- authorizers the handler reaches with its user argument")
	g.P("  group : String     -- the function holding the literal (which NewHandler call registers it)")
	g.P("  external : Bool    -- registered by a package other than httpd")
	g.P("  patternC : List Char -- `pattern` as characters (String.toList is slow in the kernel)")
	g.P("deriving DecidableEq, Repr\n")
	g.P("def routes : List RouteFact := [")
	for i, r := range routes {
		var az []string
		for _, a := range r.authz {
			az = append(az, leanStr(a))
		}
		sep := ","
		if i == len(routes)-1 {
			sep = ""
		}
		group := r.src[strings.LastIndexByte(r.src, ':')+1:]
		ext := "false"
		if !strings.HasPrefix(r.src, c19Httpd) {
			ext = "true"
		}
		g.P("  ⟨%s, %s, %s, %s, %s, %s, %s, %s, %s, [%s], %s, %s, %s⟩%s", leanStr(r.src), leanStr(r.cond), leanStr(r.name), leanStr(r.method),
			leanStr(r.pattern), leanStr(r.compress), leanStr(r.logging), leanStr(r.handler), leanStr(r.sig), strings.Join(az, ", "),
			leanStr(group), ext, leanChars(r.pattern), sep)
	}
	g.P("]\n")
	var lits [][2]string
	for _, r := range routes {
		if r.handler == "<funclit>" {
			lits = append(lits, [2]string{r.method + " " + r.pattern + " [" + r.cond + "]", r.lit})
		}
	}
	g.PairList("funcLitHandlers", lits)
	g.StrList("externalRouteCallers", callers)

	// who calls AddRoutes / registers on the mux inside httpd
	var addCalls, muxCalls, newHandlerCalls []string
	for _, fn := range p.names {
		for _, d := range p.files[fn].Decls {
			fd, ok := d.(*ast.FuncDecl)
			if !ok || fd.Body == nil {
				continue
			}
			ast.Inspect(fd.Body, func(n ast.Node) bool {
				c, ok := n.(*ast.CallExpr)
				if !ok {
					return true
				}
				fun := g.Src(c.Fun)
				if strings.HasSuffix(fun, ".AddRoutes") {
					addCalls = append(addCalls, fd.Name.Name)
				}
				if strings.Contains(fun, "h.mux.") || fun == "mux.NewRouter" {
					muxCalls = append(muxCalls, fd.Name.Name+": "+fun)
				}
				if fd.Name.Name == "NewHandler" && strings.HasPrefix(fun, "h.Add") {
					newHandlerCalls = append(newHandlerCalls, g.Src(c))
				}
				return true
			})
		}
	}
	g.StrList("addRoutesCallers", addCalls)
	g.StrList("muxCalls", muxCalls)
	g.StrList("newHandlerRegistrations", newHandlerCalls)
	// the conditional registration in NewHandler
	if fd := p.funcs["NewHandler"]; fd != nil {
		var conds []string
		ast.Inspect(fd.Body, func(n ast.Node) bool {
			if is, ok := n.(*ast.IfStmt); ok {
				body := g.Src(is.Body)
				if strings.Contains(body, "h.Add") {
					conds = append(conds, g.Src(is.Cond)+" => "+body)
				}
			}
			return true
		})
		g.StrList("newHandlerConditional", conds)
	}

	// AddRoutes: the two type assertions that decide wrapping
	ar := p.funcs["Handler.AddRoutes"]
	if ar == nil {
		return fmt.Errorf("C19: Handler.AddRoutes not found")
	}
	var wraps [][2]string
	var addRoutesTail []string
	ast.Inspect(ar.Body, func(n ast.Node) bool {
		is, ok := n.(*ast.IfStmt)
		if !ok || is.Init == nil {
			return true
		}
		as, ok := is.Init.(*ast.AssignStmt)
		if !ok || len(as.Rhs) != 1 {
			return true
		}
		ta, ok := as.Rhs[0].(*ast.TypeAssertExpr)
		if !ok {
			return true
		}
		var body []string
		for _, s := range is.Body.List {
			body = append(body, g.Src(s))
		}
		wraps = append(wraps, [2]string{g.Src(ta.X) + ".(" + g.Src(ta.Type) + ")", strings.Join(body, "; ")})
		return false
	})
	g.PairList("addRoutesWrap", wraps)
	// everything AddRoutes does with `handler` after the assertions, in order
	ast.Inspect(ar.Body, func(n ast.Node) bool {
		switch s := n.(type) {
		case *ast.AssignStmt:
			if len(s.Lhs) == 1 && g.Src(s.Lhs[0]) == "handler" {
				addRoutesTail = append(addRoutesTail, g.Src(s.Rhs[0]))
			}
		case *ast.ExprStmt:
			if c, ok := s.X.(*ast.CallExpr); ok && strings.Contains(g.Src(c.Fun), "mux") {
				addRoutesTail = append(addRoutesTail, g.Src(c))
			}
		}
		return true
	})
	g.StrList("addRoutesHandlerAssignments", addRoutesTail)

	// ServeHTTP: the dispatch chain in front of the mux
	sh := p.funcs["Handler.ServeHTTP"]
	if sh == nil {
		return fmt.Errorf("C19: Handler.ServeHTTP not found")
	}
	var chain [][2]string
	var top *ast.IfStmt
	nTop := 0
	for _, st := range sh.Body.List {
		if is, ok := st.(*ast.IfStmt); ok {
			top = is
			nTop++
		}
	}
	muxDirect := 0
	ast.Inspect(sh.Body, func(n ast.Node) bool {
		if c, ok := n.(*ast.CallExpr); ok && g.Src(c.Fun) == "h.mux.ServeHTTP" {
			muxDirect++
		}
		return true
	})
	if nTop != 1 || muxDirect != 1 {
		// unknown shape: record it whole; the expectation in Facts.lean will not match
		chain = append(chain, [2]string{"<shape>", g.Src(sh.Body)})
	} else {
		for cur := top; cur != nil; {
			chain = append(chain, [2]string{g.Src(cur.Cond), g.Src(cur.Body)})
			switch e := cur.Else.(type) {
			case *ast.IfStmt:
				cur = e
			case *ast.BlockStmt:
				chain = append(chain, [2]string{"else", g.Src(e)})
				cur = nil
			default:
				cur = nil
			}
		}
	}
	g.PairList("serveHTTPDispatch", chain)
	// prefixes extracted from the chain: strings.HasPrefix(r.URL.Path, "<p>")
	var prefixes []string
	for cur := top; cur != nil && nTop == 1; {
		ast.Inspect(cur.Cond, func(n ast.Node) bool {
			if c, ok := n.(*ast.CallExpr); ok && g.Src(c.Fun) == "strings.HasPrefix" && len(c.Args) == 2 && g.Src(c.Args[0]) == "r.URL.Path" {
				prefixes = append(prefixes, c19Unquote(g, c.Args[1]))
			}
			return true
		})
		if e, ok := cur.Else.(*ast.IfStmt); ok {
			cur = e
		} else {
			cur = nil
		}
	}
	g.StrList("preMuxPrefixes", prefixes)
	var pcs []string
	for _, p := range prefixes {
		pcs = append(pcs, leanChars(p))
	}
	g.P("def preMuxPrefixesC : List (List Char) := [%s]", strings.Join(pcs, ", "))

	// ParseCredentials: which Method values it can produce; authenticate: the switch labels
	pc := p.funcs["ParseCredentials"]
	au := p.funcs["authenticate"]
	if pc == nil || au == nil {
		return fmt.Errorf("C19: ParseCredentials/authenticate not found")
	}
	var methods []string
	ast.Inspect(pc.Body, func(n ast.Node) bool {
		if kv, ok := n.(*ast.KeyValueExpr); ok && g.Src(kv.Key) == "Method" {
			methods = append(methods, g.Src(kv.Value))
		}
		return true
	})
	g.StrList("parseCredentialsMethods", methods)
	rets, err := g.Returns(p.relOf(pc), "ParseCredentials")
	if err == nil {
		var short []string
		for _, r := range rets {
			if strings.HasPrefix(r, "&credentials") {
				r = "&credentials{…}, nil"
			}
			short = append(short, r)
		}
		g.StrList("parseCredentialsReturns", short)
	}
	g.P("def src_ParseCredentials : String := %s", leanStr(g.Src(pc.Body)))
	// const block of AuthenticationMethod
	var amConsts []string
	for _, fn := range p.names {
		for _, d := range p.files[fn].Decls {
			gd, ok := d.(*ast.GenDecl)
			if !ok || gd.Tok != token.CONST {
				continue
			}
			in := false
			for _, sp := range gd.Specs {
				vs := sp.(*ast.ValueSpec)
				if vs.Type != nil {
					in = g.Src(vs.Type) == "AuthenticationMethod"
				} else if len(vs.Values) > 0 {
					in = false
				}
				if in {
					for _, n := range vs.Names {
						amConsts = append(amConsts, n.Name)
					}
				}
			}
		}
	}
	g.StrList("authenticationMethodConsts", amConsts)
	// the credential-method switch of authenticate: label -> does the clause end in `return` on every path it reports an error
	var sw *ast.SwitchStmt
	ast.Inspect(au.Body, func(n ast.Node) bool {
		if s, ok := n.(*ast.SwitchStmt); ok && sw == nil && s.Tag != nil && g.Src(s.Tag) == "creds.Method" {
			sw = s
		}
		return sw == nil
	})
	if sw == nil {
		return fmt.Errorf("C19: authenticate has no switch on creds.Method")
	}
	var arms [][2]string
	for _, st := range sw.Body.List {
		cc := st.(*ast.CaseClause)
		label := "default"
		if cc.List != nil {
			var ls []string
			for _, l := range cc.List {
				ls = append(ls, g.Src(l))
			}
			label = strings.Join(ls, ",")
		}
		// every h.httpError(...) statement of the clause must be followed by a return
		errs, unguarded := 0, 0
		var scan func(list []ast.Stmt)
		scan = func(list []ast.Stmt) {
			for i, s := range list {
				if es, ok := s.(*ast.ExprStmt); ok {
					if c, ok := es.X.(*ast.CallExpr); ok && g.Src(c.Fun) == "h.httpError" {
						errs++
						guarded := false
						for _, nx := range list[i+1:] {
							if _, ok := nx.(*ast.ReturnStmt); ok {
								guarded = true
								break
							}
							if _, ok := nx.(*ast.ExprStmt); !ok {
								break
							}
						}
						if !guarded {
							unguarded++
						}
					}
				}
				ast.Inspect(s, func(n ast.Node) bool {
					if b, ok := n.(*ast.BlockStmt); ok {
						scan(b.List)
						return false
					}
					if _, ok := n.(*ast.FuncLit); ok {
						return false
					}
					return true
				})
			}
		}
		scan(cc.Body)
		arms = append(arms, [2]string{label, fmt.Sprintf("errors=%d unguarded=%d", errs, unguarded)})
	}
	g.PairList("authenticateArms", arms)
	fp, err := g.Fingerprint(p.relOf(au), "authenticate")
	if err != nil {
		return err
	}
	g.P("def fingerprint_authenticate : String := %s", leanStr(fp))
	// statements of authenticate outside the `if requireAuthentication && AdminUserExists` block
	var outer []string
	if fl, ok := au.Body.List[0].(*ast.ReturnStmt); ok && len(fl.Results) == 1 {
		if c, ok := fl.Results[0].(*ast.CallExpr); ok && len(c.Args) == 1 {
			if lit, ok := c.Args[0].(*ast.FuncLit); ok {
				for _, s := range lit.Body.List {
					if is, ok := s.(*ast.IfStmt); ok {
						outer = append(outer, "if "+g.Src(is.Cond)+" {…}")
						if strings.Contains(g.Src(is.Cond), "!requireAuthentication") {
							outer[len(outer)-1] = "if " + g.Src(is.Cond) + " " + g.Src(is.Body)
						}
					} else {
						outer = append(outer, g.Src(s))
					}
				}
			}
		}
	}
	g.StrList("authenticateOuter", outer)

	// the privilege check
	const metaDir = "lib/util/lifted/influx/meta/"
	for _, f := range [][2]string{{"userinfo.go", "UserInfo.AuthorizeDatabase"}, {"userinfo.go", "UserInfo.AuthorizeUnrestricted"},
		{"authorizer.go", "UserInfo.AuthorizeQuery"}} {
		fd, err := g.Func(metaDir+f[0], f[1])
		if err != nil {
			return err
		}
		g.P("def src_%s : String := %s", strings.TrimPrefix(f[1], "UserInfo."), leanStr(g.Src(fd.Body)))
	}
	for _, f := range []string{"QueryAuthorizer.AuthorizeQuery", "WriteAuthorizer.AuthorizeWrite"} {
		fd, err := g.Func("lib/util/lifted/influx/auth/auth.go", f)
		if err != nil {
			return err
		}
		g.P("def src_%s : String := %s", strings.ReplaceAll(f, ".", "_"), leanStr(g.Src(fd.Body)))
	}
	// serveMetrics: the per-module authorization error is skipped, not turned into a denial
	if fd := p.funcs["Handler.serveMetrics"]; fd != nil {
		g.P("def src_serveMetrics : String := %s", leanStr(g.Src(fd.Body)))
	} else {
		g.P("def src_serveMetrics : String := \"<missing>\"")
	}
	// Privilege constants of the local influxql package (iota block)
	af, err := g.Parse("lib/util/lifted/influx/influxql/ast.go")
	if err != nil {
		return err
	}
	var privs []string
	for _, d := range af.Decls {
		gd, ok := d.(*ast.GenDecl)
		if !ok || gd.Tok != token.CONST {
			continue
		}
		hit := false
		for _, sp := range gd.Specs {
			vs := sp.(*ast.ValueSpec)
			if vs.Type != nil && g.Src(vs.Type) == "Privilege" {
				hit = true
			}
		}
		if hit {
			for _, sp := range gd.Specs {
				for _, n := range sp.(*ast.ValueSpec).Names {
					privs = append(privs, n.Name)
				}
			}
		}
	}
	g.StrList("privilegeConsts", privs)
	// statement type -> what RequiredPrivileges returns
	var rp [][2]string
	for _, d := range af.Decls {
		fd, ok := d.(*ast.FuncDecl)
		if !ok || fd.Name.Name != "RequiredPrivileges" || fd.Recv == nil || fd.Body == nil {
			continue
		}
		recv := typeName(fd.Recv.List[0].Type)
		var rs []string
		ast.Inspect(fd.Body, func(n ast.Node) bool {
			if r, ok := n.(*ast.ReturnStmt); ok && len(r.Results) > 0 {
				rs = append(rs, g.Src(r.Results[0]))
			}
			return true
		})
		body := strings.Join(rs, " | ")
		if len(fd.Body.List) > 1 {
			body = g.Src(fd.Body)
		}
		rp = append(rp, [2]string{recv, body})
	}
	sort.Slice(rp, func(i, j int) bool { return rp[i][0] < rp[j][0] })
	g.PairList("requiredPrivileges", rp)
	if err := genC19Flows(g, p, routes); err != nil {
		return err
	}
	if err := genC19Wide(g); err != nil {
		return err
	}
	g.Footer()
	return nil
}
