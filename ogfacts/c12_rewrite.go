package main

// C12 — what rewrites a condition / a field expression between the statement parser and the String()
// that is shipped: the call chain from the statement preparation to MarshalBinary, regenerated.
//
//   rewriteChain        for every function on the path (query.Prepare … encodeProcessorOptions), in source
//                       order, the calls it makes to a rewriter / to the next function of the path
//   rewriteFingerprints the bodies the Lean model of Rewrite.lean transcribes (ConditionExpr, conditionExpr,
//                       Reduce and the parts of reduce it follows, getTimeRange, NowValuer) and the rewriters it
//                       does not model (RewriteRegexConditions, RewriteFields, RewriteCondVarRef, …): a change
//                       of any of them must be looked at

import (
	"go/ast"
	"regexp"
	"strings"
)

var c12RewriterCall = regexp.MustCompile(`^(ConditionExpr|conditionExpr|Reduce|reduce\w*|Rewrite\w*|rewrite\w*|CloneExpr|Clone|` +
	`Compile|Prepare|preprocess|compile|compileFields|compileDimensions|subquery|validateCondition|MapShards|mapShards|` +
	`NewProcessorOptionsStmt|NewProcessorOptionsStmtBase|NewPreparedStatement|EvalTypeBatch|EvalType|FilterPushDown|SetCondition|SetValueCondition|` +
	`newSubOptions|makeRemoteQuery|MarshalBinary|encodeProcessorOptions|EncodeQuerySchema|String|getTimeRange|SplitCondByTime)$`)

func (g *Gen) c12Calls(rel, fn string) ([]string, error) {
	fd, err := g.Func(rel, fn)
	if err != nil {
		return nil, err
	}
	var out []string
	ast.Inspect(fd.Body, func(n ast.Node) bool {
		ce, ok := n.(*ast.CallExpr)
		if !ok {
			return true
		}
		name := ""
		recv := ""
		switch f := ce.Fun.(type) {
		case *ast.Ident:
			name = f.Name
		case *ast.SelectorExpr:
			name = f.Sel.Name
			recv = g.Src(f.X)
		}
		if name == "" || !c12RewriterCall.MatchString(name) {
			return true
		}
		if name == "String" {
			// only the printing of what is shipped: opt.X.String(), schema.GetQueryFields().String()
			if !strings.HasPrefix(recv, "opt.") && !strings.Contains(recv, "GetQueryFields") {
				return true
			}
		}
		if recv != "" && len(recv) < 40 {
			name = recv + "." + name
		}
		out = append(out, name)
		return true
	})
	return out, nil
}

func genC12Rewrite(g *Gen) error {
	const qdir = "lib/util/lifted/influx/query/"
	g.P("/-! ### rewriting between planning and shipping: the call chain -/\n")
	path := [][2]string{
		{qdir + "select.go", "Prepare"},
		{qdir + "compile.go", "Compile"},
		{qdir + "compile.go", "compiledStatement.preprocess"},
		{qdir + "compile.go", "compiledStatement.compile"},
		{qdir + "compile.go", "compiledStatement.compileFields"},
		{qdir + "compile.go", "compiledStatement.subquery"},
		{qdir + "compile.go", "compiledStatement.Prepare"},
		{c12dir + "ast.go", "ConditionExpr"},
		{c12dir + "ast.go", "conditionExpr"},
		{c12dir + "ast.go", "Reduce"},
		{c12dir + "ast.go", "SelectStatement.RewriteFields"},
		{qdir + "select.go", "NewProcessorOptionsStmt"},
		{qdir + "select.go", "NewProcessorOptionsStmtBase"},
		{"coordinator/shard_mapper.go", "ClusterShardMapper.mapShards"},
		{"coordinator/shard_mapper.go", "ClusterShardMapping.makeRemoteQuery"},
		{"engine/executor/subquery.go", "SubQueryBuilder.newSubOptions"},
		{"engine/executor/subquery.go", "FilterPushDown"},
		{"engine/executor/rpc_message.go", "RemoteQuery.Marshal"},
		{qdir + "processor_codec.go", "encodeProcessorOptions"},
		{qdir + "processor_codec.go", "EncodeQuerySchema"},
	}
	g.P("def rewriteChain : List (String × List String) := [")
	for i, p := range path {
		calls, err := g.c12Calls(p[0], p[1])
		if err != nil {
			return err
		}
		var q []string
		for _, c := range calls {
			q = append(q, leanStr(c))
		}
		sep := ","
		if i == len(path)-1 {
			sep = ""
		}
		g.P("  (%s, [%s])%s", leanStr(p[1]), strings.Join(q, ", "), sep)
	}
	g.P("]\n")
	var fps [][2]string
	for _, h := range [][2]string{
		{c12dir + "ast.go", "ConditionExpr"}, {c12dir + "ast.go", "conditionExpr"}, {c12dir + "ast.go", "getTimeRange"},
		{c12dir + "ast.go", "Reduce"}, {c12dir + "ast.go", "reduce"}, {c12dir + "ast.go", "reduceBinaryExpr"},
		{c12dir + "ast.go", "reduceParenExpr"}, {c12dir + "ast.go", "reduceCall"}, {c12dir + "ast.go", "reduceVarRef"},
		{c12dir + "ast.go", "NowValuer.Call"}, {c12dir + "ast.go", "NowValuer.Value"},
		{c12dir + "ast.go", "StringLiteral.IsTimeLiteral"}, {c12dir + "parser.go", "isDateString"}, {c12dir + "parser.go", "isDateTimeString"},
		{c12dir + "ast.go", "SelectStatement.RewriteRegexConditions"}, {c12dir + "ast.go", "RewriteCondVarRef"},
		{c12dir + "ast.go", "RewriteExpr"}, {c12dir + "ast.go", "CloneExpr"},
		{"engine/executor/in_transform.go", "InTransform.RewriteOuterStmtCondition"},
	} {
		fp, err := g.Fingerprint(h[0], h[1])
		if err != nil {
			return err
		}
		fps = append(fps, [2]string{h[1], fp})
	}
	g.PairList("rewriteFingerprints", fps)
	g.P("")
	return nil
}
