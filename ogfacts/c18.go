package main

import (
	"fmt"
	"go/ast"
	"go/token"
	"sort"
	"strconv"
	"strings"
)

func init() { register("C18", genC18) }

// mapLitTable: for a package-level `var name = map[string]T{ "k": {f: v, …}, … }` one row per
// key (source order kept): key and the canonical text of the listed fields.
func mapLitTable(g *Gen, rel, name string, fields ...string) ([][2]string, error) {
	f, err := g.Parse(rel)
	if err != nil {
		return nil, err
	}
	for _, d := range f.Decls {
		gd, ok := d.(*ast.GenDecl)
		if !ok || gd.Tok != token.VAR {
			continue
		}
		for _, sp := range gd.Specs {
			vs := sp.(*ast.ValueSpec)
			for i, n := range vs.Names {
				if n.Name != name || i >= len(vs.Values) {
					continue
				}
				cl, ok := vs.Values[i].(*ast.CompositeLit)
				if !ok {
					return nil, fmt.Errorf("%s: %s is not a composite literal", rel, name)
				}
				var rows [][2]string
				for _, el := range cl.Elts {
					kv, ok := el.(*ast.KeyValueExpr)
					if !ok {
						return nil, fmt.Errorf("%s: %s: element without key", rel, name)
					}
					key, err := strconv.Unquote(g.Src(kv.Key))
					if err != nil {
						return nil, fmt.Errorf("%s: %s: key %s", rel, name, g.Src(kv.Key))
					}
					inner, ok := kv.Value.(*ast.CompositeLit)
					if !ok {
						return nil, fmt.Errorf("%s: %s[%s] is not a composite literal", rel, name, key)
					}
					got := map[string]string{}
					for _, fe := range inner.Elts {
						fkv, ok := fe.(*ast.KeyValueExpr)
						if !ok {
							continue
						}
						got[g.Src(fkv.Key)] = g.Src(fkv.Value)
					}
					var parts []string
					for _, fn := range fields {
						if v, ok := got[fn]; ok {
							parts = append(parts, fn+"="+v)
						}
					}
					rows = append(rows, [2]string{key, strings.Join(parts, " ")})
				}
				return rows, nil
			}
		}
	}
	return nil, fmt.Errorf("%s: variable %s not found", rel, name)
}

// registryCalls: the `RegistryPromFunction("name", &op{})` calls of init(), in source order.
func registryCalls(g *Gen, rel string) ([][2]string, error) {
	fd, err := g.Func(rel, "init")
	if err != nil {
		return nil, err
	}
	var rows [][2]string
	for _, st := range fd.Body.List {
		es, ok := st.(*ast.ExprStmt)
		if !ok {
			continue
		}
		call, ok := es.X.(*ast.CallExpr)
		if !ok || g.Src(call.Fun) != "RegistryPromFunction" || len(call.Args) != 2 {
			continue
		}
		name, err := strconv.Unquote(g.Src(call.Args[0]))
		if err != nil {
			return nil, err
		}
		rows = append(rows, [2]string{name, g.Src(call.Args[1])})
	}
	if len(rows) == 0 {
		return nil, fmt.Errorf("%s: no RegistryPromFunction call in init", rel)
	}
	return rows, nil
}

// durationMs evaluates `N * time.Unit` (the only shape the look-back default has had).
func durationMs(src string) (int64, error) {
	parts := strings.Split(src, "*")
	if len(parts) != 2 {
		return 0, fmt.Errorf("unexpected duration expression %q", src)
	}
	n, err := strconv.ParseInt(strings.TrimSpace(parts[0]), 10, 64)
	if err != nil {
		return 0, fmt.Errorf("unexpected duration expression %q", src)
	}
	unit := map[string]int64{"time.Millisecond": 1, "time.Second": 1000, "time.Minute": 60000, "time.Hour": 3600000}[strings.TrimSpace(parts[1])]
	if unit == 0 {
		return 0, fmt.Errorf("unexpected duration unit in %q", src)
	}
	return n * unit, nil
}

func genC18(g *Gen) error {
	const tp = "lib/util/lifted/promql2influxql/"
	const en = "engine/"
	g.Header(tp+"constant.go", tp+"selector.go", tp+"call.go", en+"prom_range_vector_cursor.go", en+"prom_instant_vector_cursor.go",
		en+"prom_functions.go", en+"prom_function_reducers.go", en+"executor/agg_func_prom.go", tp+"transpiler.go")
	g.GenNS()

	// look-back default
	lb, err := g.Const(tp+"constant.go", "DefaultLookBackDelta")
	if err != nil {
		return err
	}
	ms, err := durationMs(lb)
	if err != nil {
		return err
	}
	g.P("def lookbackSrc : String := %s", leanStr(lb))
	g.P("def lookbackMs : Int := %d", ms)

	// function-name tables: PromQL name -> InfluxQL call (+ keepMetric), InfluxQL call -> reducer op
	rows, err := mapLitTable(g, tp+"call.go", "rangeVectorFunctions", "name", "keepMetric")
	if err != nil {
		return err
	}
	sort.SliceStable(rows, func(i, j int) bool { return rows[i][0] < rows[j][0] })
	var keep []string
	for i := range rows {
		// `name="x_prom" keepMetric=true` -> name, and the keepMetric functions listed apart
		v := rows[i][1]
		if strings.HasSuffix(v, " keepMetric=true") {
			keep = append(keep, rows[i][0])
			v = strings.TrimSuffix(v, " keepMetric=true")
		}
		nm, err := strconv.Unquote(strings.TrimPrefix(v, "name="))
		if err != nil {
			return fmt.Errorf("rangeVectorFunctions[%s]: unexpected fields %q", rows[i][0], rows[i][1])
		}
		rows[i][1] = nm
	}
	g.PairList("rangeVectorFunctions", rows)
	g.StrList("keepMetricFunctions", keep)
	reg, err := registryCalls(g, en+"prom_functions.go")
	if err != nil {
		return err
	}
	g.PairList("promFunctionRegistry", reg)
	// what each reducer of the checked subset is built from
	var ops [][2]string
	for _, op := range []string{"rateOp", "irateOp", "increaseOp", "deltaOp", "ideltaOp", "sumOp", "avgOp", "minOp", "maxOp", "countOp", "lastOp", "intervalExistMark"} {
		r, err := g.Returns(en+"prom_functions.go", op+".CreateRoutine")
		if err != nil {
			return err
		}
		ops = append(ops, [2]string{op, strings.Join(r, " | ")})
	}
	g.PairList("reducerOf", ops)

	// window arithmetic and the formulas the model transcribes
	for _, f := range [][3]string{
		{tp + "selector.go", "Transpiler.transpileVectorSelector2ConditionExpr", "timeCondition"},
		{en + "prom_range_vector_cursor.go", "NewRangeVectorCursor", "newRangeCursor"},
		{en + "prom_range_vector_cursor.go", "RangeVectorCursor.getIntervalIndex", "rangeIntervalIndex"},
		{en + "prom_range_vector_cursor.go", "FilterRangeNANPoint", "filterRangeNaN"},
		{en + "prom_instant_vector_cursor.go", "NewInstantVectorCursor", "newInstantCursor"},
		{en + "prom_instant_vector_cursor.go", "InstantVectorCursor.computeIntervalIndex", "instantIntervalIndex"},
		{en + "prom_instant_vector_cursor.go", "getCurrStep", "getCurrStep"},
		{en + "prom_instant_vector_cursor.go", "getPrevStep", "getPrevStep"},
		{en + "prom_instant_vector_cursor.go", "floatSampler.PopulateByPrevious", "populateByPrevious"},
		{en + "prom_functions.go", "floatPromRateMerge", "rateMerge"},
		{en + "prom_functions.go", "floatIRateMerge", "irateMerge"},
		{en + "executor/agg_func_prom.go", "CalcReduceResult", "calcReduceResult"},
	} {
		fd, err := g.Func(f[0], f[1])
		if err != nil {
			return err
		}
		g.P("def src_%s : String := %s", f[2], leanStr(g.Src(fd.Body)))
	}
	// the condition of the duration-to-zero clamp of rate / increase (store side and subquery side),
	// as a list of conjuncts: compared with the reference's condition (counter, increase > 0, first >= 0)
	for _, f := range [][3]string{
		{en + "prom_functions.go", "floatPromRateMerge", "engine"},
		{en + "executor/agg_func_prom.go", "rate", "executor"},
	} {
		conj, err := clampCondition(g, f[0], f[1])
		if err != nil {
			return err
		}
		g.StrList("clampCond_"+f[2], conj)
	}
	fp, err := g.Fingerprint(en+"prom_instant_vector_cursor.go", "floatSampler.Aggregate")
	if err != nil {
		return err
	}
	g.P("def fp_samplerAggregate : String := %s", leanStr(fp))
	// the record-boundary machinery OGRec.lean abstracts (fingerprints: a change asks for a re-validation)
	for _, f := range [][3]string{
		{en + "prom_range_vector_cursor.go", "RangeVectorCursor.peekSamples", "peekSamples"},
		{en + "prom_range_vector_cursor.go", "RangeVectorCursor.inNextWindow", "inNextWindow"},
		{en + "prom_instant_vector_cursor.go", "isSameWindow", "isSameWindow"},
		{en + "prom_instant_vector_cursor.go", "IsSameStep", "isSameStep"},
		{en + "prom_function_reducers.go", "floatIncAggReducer.Aggregate", "incAggAggregate"},
		{en + "prom_function_reducers.go", "floatSliceReducer.Aggregate", "sliceAggregate"},
		{en + "prom_function_reducers.go", "floatRateReducer.Aggregate", "rateAggregate"},
		{en + "prom_function_reducers.go", "floatIncAggReducer.doFirstWindow", "incAggDoFirstWindow"},
		{en + "prom_function_reducers.go", "floatIncAggReducer.populateByPrevious", "incAggPopulateByPrevious"},
		{en + "prom_function_reducers.go", "floatIncAggReducer.populateByLast", "incAggPopulateByLast"},
		{tp + "transpiler.go", "Transpiler.rewriteMinMaxTime", "rewriteMinMaxTime"},
	} {
		h, err := g.Fingerprint(f[0], f[1])
		if err != nil {
			return err
		}
		g.P("def fp_%s : String := %s", f[2], leanStr(h))
	}
	g.Footer()
	return nil
}

// clampCondition: the conjuncts of the `if` whose body computes durationToZero.
func clampCondition(g *Gen, rel, name string) ([]string, error) {
	fd, err := g.Func(rel, name)
	if err != nil {
		return nil, err
	}
	var cond ast.Expr
	ast.Inspect(fd.Body, func(n ast.Node) bool {
		is, ok := n.(*ast.IfStmt)
		if !ok || cond != nil {
			return true
		}
		for _, st := range is.Body.List {
			if as, ok := st.(*ast.AssignStmt); ok && len(as.Lhs) == 1 && g.Src(as.Lhs[0]) == "durationToZero" {
				cond = is.Cond
			}
		}
		return true
	})
	if cond == nil {
		return nil, fmt.Errorf("%s: %s: no duration-to-zero clamp found", rel, name)
	}
	var out []string
	var split func(e ast.Expr)
	split = func(e ast.Expr) {
		if b, ok := e.(*ast.BinaryExpr); ok && b.Op == token.LAND {
			split(b.X)
			split(b.Y)
			return
		}
		out = append(out, g.Src(e))
	}
	split(cond)
	return out, nil
}
