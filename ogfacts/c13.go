package main

import (
	"fmt"
	"go/ast"
	"sort"
	"strings"
)

func init() { register("C13", genC13) }

// C13 — facts the drop model was written against.
//
//  1. paths: for every read shape, the functions on its id-producing path in the series index
//     that take the deleted-tsid set into account ("guard"), and every function that reads
//     tsids out of index rows and is reached without passing a guard ("UNGUARDED"). Computed
//     from the call sites of the deleted-set accessors (is.deleted, GetDeletedTSIDs) and the
//     static call graph (by method name) of search.go, search_prune.go, tag_array.go and
//     mergeset_index.go.
//  2. the statements of shard.DropMeasurement, MmsTables.DropMeasurement, the guard in
//     commitSnapshot, the calls of DropSeries.Process / storeTsids, WriteDeleteTsids,
//     LoadDeletedTSIDs, shard.Close, IndexBuilder.DropSeries, and the version arithmetic of
//     meta.Data.CreateMeasurement.
func genC13(g *Gen) error {
	const tsi = "engine/index/tsi/"
	files := []string{tsi + "search.go", tsi + "search_prune.go", tsi + "tag_array.go", tsi + "mergeset_index.go"}
	g.Header(append(files, "engine/shard.go", "engine/immutable/mms_tables.go", "engine/partition.go",
		"app/ts-store/transport/handler/handlers_process.go", tsi+"index_builder.go",
		"lib/util/lifted/influx/meta/data.go", "lib/util/lifted/vm/protoparser/influx/parser.go",
		"lib/util/lifted/vm/mergeset/table.go")...)
	g.GenNS()

	type fn struct {
		key     string // Recv.Name
		name    string
		decl    *ast.FuncDecl
		calls   []string // bare callee names, in source order, deduplicated
		usesIs  bool     // mentions is.deleted
		usesGet bool     // calls GetDeletedTSIDs / HasDeletedTSID
		leaf    bool     // reads tsids out of index rows
		setDel  string   // argument of a setDeleted call, if any
	}
	var fns []*fn
	byName := map[string][]*fn{}
	for _, rel := range files {
		f, err := g.Parse(rel)
		if err != nil {
			return err
		}
		for _, d := range f.Decls {
			fd, ok := d.(*ast.FuncDecl)
			if !ok || fd.Body == nil {
				continue
			}
			x := &fn{name: fd.Name.Name, decl: fd}
			x.key = fd.Name.Name
			if fd.Recv != nil && len(fd.Recv.List) == 1 {
				x.key = typeName(fd.Recv.List[0].Type) + "." + fd.Name.Name
			}
			seen := map[string]bool{}
			// is.deleted on the left of an assignment (setDeleted, the reset in putIndexSearch) is not a use
			assigned := map[ast.Expr]bool{}
			ast.Inspect(fd.Body, func(n ast.Node) bool {
				if as, ok := n.(*ast.AssignStmt); ok {
					for _, l := range as.Lhs {
						assigned[l] = true
					}
				}
				return true
			})
			ast.Inspect(fd.Body, func(n ast.Node) bool {
				switch e := n.(type) {
				case *ast.SelectorExpr:
					if id, ok := e.X.(*ast.Ident); ok && id.Name == "is" && e.Sel.Name == "deleted" && !assigned[e] {
						x.usesIs = true
					}
				case *ast.CallExpr:
					callee := ""
					switch c := e.Fun.(type) {
					case *ast.Ident:
						callee = c.Name
					case *ast.SelectorExpr:
						callee = c.Sel.Name
					}
					switch callee {
					case "GetDeletedTSIDs", "HasDeletedTSID":
						x.usesGet = true
					case "ParseTSIDs", "TSIDsLen", "IsExpectedTag", "UnmarshalUint64":
						x.leaf = true
					case "setDeleted":
						// handing the set to the search is not itself a subtraction
						if len(e.Args) == 1 {
							x.setDel = g.Src(e.Args[0])
						}
						if !seen[callee] {
							seen[callee] = true
							x.calls = append(x.calls, callee)
						}
						return false
					}
					if callee != "" && !seen[callee] {
						seen[callee] = true
						x.calls = append(x.calls, callee)
					}
				}
				return true
			})
			fns = append(fns, x)
			byName[x.name] = append(byName[x.name], x)
		}
	}
	find := func(key string) *fn {
		for _, x := range fns {
			if x.key == key {
				return x
			}
		}
		return nil
	}

	type entry struct {
		shape, start string
		exclude      []string // callees whose result is only a filter, not the output
	}
	entries := []entry{
		{"select", "MergeSetIndex.SearchSeriesIterator", nil},
		{"showseries", "MergeSetIndex.SearchSeries", []string{"searchSeriesWithTagArray"}},
		{"dropsearch", "MergeSetIndex.SearchSeriesByTableAndCond", nil},
		{"cardall", "MergeSetIndex.seriesCardinality", nil},
		{"cardcond", "MergeSetIndex.searchTSIDs", nil},
		{"tagvalues", "indexSearch.searchTagValues", []string{"searchTSIDsInternal", "isExpectTagWithTagArray"}},
		{"keylookup", "MergeSetIndex.getSeriesIdBySeriesKey", nil},
	}
	var rows [][3]string
	for _, en := range entries {
		st := find(en.start)
		if st == nil {
			return fmt.Errorf("entry %s not found", en.start)
		}
		// is.deleted is meaningful only if the entry hands the index's deleted set to the search
		isValid := st.setDel == "idx.GetDeletedTSIDs()"
		if st.setDel != "" {
			rows = append(rows, [3]string{en.shape, st.key, "setDeleted:" + st.setDel})
		}
		excl := map[string]bool{}
		for _, e := range en.exclude {
			excl[e] = true
		}
		visited := map[string]bool{}
		var out [][3]string
		var walk func(x *fn)
		walk = func(x *fn) {
			if visited[x.key] {
				return
			}
			visited[x.key] = true
			if x.usesGet {
				out = append(out, [3]string{en.shape, x.key, "guard:GetDeletedTSIDs"})
				return
			}
			if x.usesIs && isValid {
				out = append(out, [3]string{en.shape, x.key, "guard:is.deleted"})
				return
			}
			if x.leaf {
				out = append(out, [3]string{en.shape, x.key, "UNGUARDED"})
			}
			for _, c := range x.calls {
				if excl[c] {
					continue
				}
				for _, y := range byName[c] {
					walk(y)
				}
			}
		}
		walk(st)
		sort.Slice(out, func(i, j int) bool { return out[i][1] < out[j][1] })
		rows = append(rows, out...)
	}
	g.P("/-- (read shape, function, role): the functions on the id-producing path of a read shape that")
	g.P("subtract / skip the deleted-tsid set, and the row readers reached without passing one. -/")
	g.P("def paths : List (String × String × String) := [")
	for i, r := range rows {
		sep := ","
		if i == len(rows)-1 {
			sep = ""
		}
		g.P("  (%s, %s, %s)%s", leanStr(r[0]), leanStr(r[1]), leanStr(r[2]), sep)
	}
	g.P("]")
	g.P("")

	// every function that mentions the deleted set, with how
	var uses [][2]string
	for _, x := range fns {
		var how []string
		if x.usesIs {
			how = append(how, "is.deleted")
		}
		if x.usesGet {
			how = append(how, "GetDeletedTSIDs")
		}
		if x.setDel != "" {
			how = append(how, "setDeleted("+x.setDel+")")
		}
		if len(how) > 0 {
			uses = append(uses, [2]string{x.key, strings.Join(how, "+")})
		}
	}
	sort.Slice(uses, func(i, j int) bool { return uses[i][0] < uses[j][0] })
	g.PairList("deletedSetUses", uses)
	g.P("")

	// statement lists
	stmts := func(rel, name string) ([]string, error) {
		fd, err := g.Func(rel, name)
		if err != nil {
			return nil, err
		}
		var out []string
		for _, s := range fd.Body.List {
			out = append(out, g.Src(s))
		}
		return out, nil
	}
	for _, f := range [][3]string{
		{"engine/shard.go", "shard.DropMeasurement", "steps_shardDropMeasurement"},
		{"engine/immutable/mms_tables.go", "MmsTables.DropMeasurement", "steps_mmsDropMeasurement"},
		{tsi + "mergeset_index.go", "MergeSetIndex.WriteDeleteTsids", "steps_writeDeleteTsids"},
		{tsi + "mergeset_index.go", "MergeSetIndex.LoadDeletedTSIDs", "steps_loadDeletedTSIDs"},
		{tsi + "mergeset_index.go", "MergeSetIndex.SeriesCardinality", "steps_seriesCardinality"},
		{tsi + "index_builder.go", "IndexBuilder.DropSeries", "steps_purge"},
		{"engine/partition.go", "SetDelMergeSetForEachMergeSet", "steps_setDelMergeSet"},
	} {
		s, err := stmts(f[0], f[1])
		if err != nil {
			return err
		}
		g.StrList(f[2], s)
	}
	// commitSnapshot: the guard that keeps a deleting measurement out of the flush
	fd, err := g.Func("engine/shard.go", "shard.commitSnapshot")
	if err != nil {
		return err
	}
	guard := ""
	ast.Inspect(fd.Body, func(n ast.Node) bool {
		if is, ok := n.(*ast.IfStmt); ok && guard == "" && strings.Contains(g.Src(is.Cond), "checkMstDeleting") {
			guard = g.Src(is)
		}
		return true
	})
	if guard == "" {
		return fmt.Errorf("commitSnapshot: no checkMstDeleting guard")
	}
	g.P("def src_commitSnapshotGuard : String := %s", leanStr(guard))
	// shard.Close: no call that flushes the memtable
	cl, err := g.Func("engine/shard.go", "shard.Close")
	if err != nil {
		return err
	}
	var closeCalls []string
	ast.Inspect(cl.Body, func(n ast.Node) bool {
		if c, ok := n.(*ast.CallExpr); ok {
			closeCalls = append(closeCalls, g.Src(c.Fun))
		}
		return true
	})
	g.StrList("calls_shardClose", closeCalls)
	// DropSeries.Process / storeTsids: the calls, in source order
	for _, f := range [][2]string{{"DropSeries.Process", "calls_dropSeriesProcess"}, {"storeTsids", "calls_storeTsids"}} {
		pd, err := g.Func("app/ts-store/transport/handler/handlers_process.go", f[0])
		if err != nil {
			return err
		}
		var calls []string
		ast.Inspect(pd.Body, func(n ast.Node) bool {
			if c, ok := n.(*ast.CallExpr); ok {
				s := g.Src(c.Fun)
				if !strings.HasPrefix(s, "logger.") && !strings.HasPrefix(s, "zap.") {
					calls = append(calls, s)
				}
			}
			return true
		})
		g.StrList(f[1], calls)
	}
	r, err := g.Returns("app/ts-store/transport/handler/handlers_process.go", "DropSeries.Process")
	if err != nil {
		return err
	}
	g.StrList("returns_dropSeriesProcess", r)
	// order of start-up: indexes (with the deleted set) before shards
	ls, err := stmts("engine/partition.go", "DBPTInfo.loadShards")
	if err != nil {
		return err
	}
	g.StrList("steps_loadShards", ls)
	// version of a re-created measurement
	cm, err := g.Func("lib/util/lifted/influx/meta/data.go", "Data.CreateMeasurement")
	if err != nil {
		return err
	}
	ver := ""
	ast.Inspect(cm.Body, func(n ast.Node) bool {
		if as, ok := n.(*ast.AssignStmt); ok && len(as.Lhs) == 1 && g.Src(as.Lhs[0]) == "ver" {
			ver = g.Src(as.Rhs[0])
		}
		return true
	})
	if ver == "" {
		return fmt.Errorf("CreateMeasurement: assignment to ver not found")
	}
	g.P("def src_nextVersion : String := %s", leanStr(ver))
	cond := ""
	ast.Inspect(cm.Body, func(n ast.Node) bool {
		if is, ok := n.(*ast.IfStmt); ok && cond == "" && strings.Contains(g.Src(is.Cond), "MarkDeleted") {
			cond = g.Src(is.Cond)
		}
		return true
	})
	g.P("def src_recreateCond : String := %s", leanStr(cond))
	// the version suffix: four hex digits (GetNameWithVersion appends '_' and appendVersion's digits)
	av, err := g.Func("lib/util/lifted/vm/protoparser/influx/parser.go", "appendVersion")
	if err != nil {
		return err
	}
	g.P("def src_appendVersion : String := %s", leanStr(g.Src(av.Body)))
	nvr, err := g.Returns("lib/util/lifted/vm/protoparser/influx/parser.go", "GetOriginMstName")
	if err != nil {
		return err
	}
	g.StrList("returns_getOriginMstName", nvr)
	if err := genC13Purge(g); err != nil {
		return err
	}
	g.Footer()
	return nil
}
