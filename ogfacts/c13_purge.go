package main

import (
	"fmt"
	"go/ast"
	"go/token"
	"strings"
)

// C13, second group of facts — the part protocol of the drop-series purge in the index table
// (lib/util/lifted/vm/mergeset/table.go):
//
//   - Table.RemoveItemsByDelTsidsFromParts: which parts the walk leaves out (being merged / carrying
//     the purge mark), that it marks the others, whether it reports the parts it left out, whether
//     its error path gives the marks back;
//   - Table.filterByDelTsidAndGenNewPart: that a part from which nothing was removed loses the
//     mark, that a changed part is taken out of tb.parts and its rewritten copy (a fresh
//     partWrapper: no flag) is appended when it is not empty;
//   - genTempPart / isDeleted: the conditions under which an item counts as removed;
//   - the mergers: getPartsToMerge leaves out parts being merged, appendPartsToMerge parts that
//     carry the purge mark; mergeParts drops isInMerge in a deferred block and publishes the output
//     after removeParts;
//   - SetLabelForDeletePart / RemoveDeletedPart on the deleted-tsid table, ClearCache of the index.
//
// The Boolean facts are *used* by the model (OG.C13.Model.purgeParts, mbegin, St.purge), so the
// theorems are re-proved against what the source says now; the statement lists are compared
// with the recorded expectation in OG.C13.Facts.
func genC13Purge(g *Gen) error {
	const tbl = "lib/util/lifted/vm/mergeset/table.go"
	boolDef := func(name string, v bool, doc string) {
		g.P("/-- %s -/", doc)
		g.P("def %s : Bool := %v", name, v)
	}
	stmts := func(rel, name string) ([]string, *ast.FuncDecl, error) {
		fd, err := g.Func(rel, name)
		if err != nil {
			return nil, nil, err
		}
		var out []string
		for _, s := range fd.Body.List {
			out = append(out, g.Src(s))
		}
		return out, fd, nil
	}
	hasContinue := func(b *ast.BlockStmt) bool {
		found := false
		ast.Inspect(b, func(n ast.Node) bool {
			if br, ok := n.(*ast.BranchStmt); ok && br.Tok == token.CONTINUE {
				found = true
			}
			return true
		})
		return found
	}
	// assignment `<something>.field = value` anywhere below n
	assigns := func(n ast.Node, field, value string) bool {
		found := false
		ast.Inspect(n, func(x ast.Node) bool {
			as, ok := x.(*ast.AssignStmt)
			if !ok || len(as.Lhs) != 1 || len(as.Rhs) != 1 || as.Tok != token.ASSIGN {
				return true
			}
			if sel, ok := as.Lhs[0].(*ast.SelectorExpr); ok && sel.Sel.Name == field && g.Src(as.Rhs[0]) == value {
				found = true
			}
			return true
		})
		return found
	}

	// ---- RemoveItemsByDelTsidsFromParts ---------------------------------------------------------
	walk, fd, err := stmts(tbl, "Table.RemoveItemsByDelTsidsFromParts")
	if err != nil {
		return err
	}
	g.P("")
	g.StrList("steps_removeItemsByDelTsids", walk)
	var loops []*ast.ForStmt
	var ranges []*ast.RangeStmt
	for _, s := range fd.Body.List {
		switch l := s.(type) {
		case *ast.ForStmt:
			loops = append(loops, l)
		case *ast.RangeStmt:
			ranges = append(ranges, l)
		}
	}
	if len(loops) != 1 || len(ranges) != 1 {
		return fmt.Errorf("RemoveItemsByDelTsidsFromParts: expected one selection loop and one rewrite loop, got %d / %d", len(loops), len(ranges))
	}
	// the parts the walk leaves out: every `if … { …; continue }` of the selection loop, with the
	// counter its body increments (if any); a counter that a later `if counter > 0 { return <error> }`
	// looks at makes the walk report the parts it left out for that reason
	reported := func(counter string) bool {
		if counter == "" {
			return false
		}
		for _, s := range fd.Body.List {
			is, ok := s.(*ast.IfStmt)
			if !ok || g.Src(is.Cond) != counter+" > 0" {
				continue
			}
			for _, b := range is.Body.List {
				if r, ok := b.(*ast.ReturnStmt); ok && len(r.Results) == 1 && g.Src(r.Results[0]) != "nil" {
					return true
				}
			}
		}
		return false
	}
	skipsInMerge, skipsMarked, refusesInMerge, refusesMarked := false, false, false, false
	var skipConds []string
	for _, s := range loops[0].Body.List {
		is, ok := s.(*ast.IfStmt)
		if !ok || !hasContinue(is.Body) {
			continue
		}
		cond := g.Src(is.Cond)
		skipConds = append(skipConds, cond)
		counter := ""
		for _, b := range is.Body.List {
			if inc, ok := b.(*ast.IncDecStmt); ok && inc.Tok == token.INC {
				counter = g.Src(inc.X)
			}
		}
		if strings.Contains(cond, ".isInMerge") {
			skipsInMerge = true
			refusesInMerge = reported(counter)
		}
		if strings.Contains(cond, ".isDeleteTsids") {
			skipsMarked = true
			refusesMarked = reported(counter)
		}
	}
	g.StrList("src_purgeSkipConds", skipConds)
	boolDef("purgeSkipsInMerge", skipsInMerge, "the walk leaves out a part that is being merged")
	boolDef("purgeSkipsMarked", skipsMarked, "the walk leaves out a part that already carries the purge mark")
	boolDef("purgeMarksSelected", assigns(loops[0].Body, "isDeleteTsids", "true"), "the walk marks every part it takes")
	boolDef("purgeRefusesWhenInMerge", refusesInMerge, "the walk returns an error when it left out a part that is being merged (the caller then keeps the deleted-tsid table)")
	boolDef("purgeRefusesWhenMarked", refusesMarked, "the walk returns an error when it left out a part that carries the purge mark")
	errUnmarks := false
	for _, s := range ranges[0].Body.List {
		if is, ok := s.(*ast.IfStmt); ok && g.Src(is.Cond) == "err != nil" {
			errUnmarks = assigns(is.Body, "isDeleteTsids", "false")
		}
	}
	boolDef("purgeErrorPathUnmarks", errUnmarks, "a failed rewrite gives the marks of the parts not rewritten back")
	last := fd.Body.List[len(fd.Body.List)-1]
	g.P("def src_removeItemsLastReturn : String := %s", leanStr(g.Src(last)))

	// ---- filterByDelTsidAndGenNewPart -------------------------------------------------------------
	fl, fd, err := stmts(tbl, "Table.filterByDelTsidAndGenNewPart")
	if err != nil {
		return err
	}
	g.StrList("steps_filterByDelTsid", fl)
	unchangedClears, unchangedReturnsNil := false, false
	for _, s := range fd.Body.List {
		if is, ok := s.(*ast.IfStmt); ok && g.Src(is.Cond) == "!changed" {
			unchangedClears = assigns(is.Body, "isDeleteTsids", "false")
			if r, ok := is.Body.List[len(is.Body.List)-1].(*ast.ReturnStmt); ok && len(r.Results) == 1 && g.Src(r.Results[0]) == "nil" {
				unchangedReturnsNil = true
			}
		}
	}
	boolDef("purgeUnchangedClearsMark", unchangedClears && unchangedReturnsNil, "a part from which nothing was removed loses the purge mark and stays")
	removes, appends, fresh := false, false, false
	ast.Inspect(fd.Body, func(n ast.Node) bool {
		switch x := n.(type) {
		case *ast.AssignStmt:
			if len(x.Rhs) == 1 && g.Src(x.Rhs[0]) == "removeParts(tb.parts, m)" && len(x.Lhs) == 2 && g.Src(x.Lhs[0]) == "tb.parts" {
				removes = true
			}
		case *ast.IfStmt:
			if g.Src(x.Cond) == "newPW != nil" && len(x.Body.List) == 1 && g.Src(x.Body.List[0]) == "tb.parts = append(tb.parts, newPW)" {
				appends = true
			}
		case *ast.CompositeLit:
			if g.Src(x.Type) == "partWrapper" {
				fresh = true
				for _, el := range x.Elts {
					if kv, ok := el.(*ast.KeyValueExpr); ok {
						if k := g.Src(kv.Key); k == "isDeleteTsids" || k == "isInMerge" {
							fresh = false
						}
					}
				}
			}
		}
		return true
	})
	boolDef("purgeChangedReplacesPart", removes && appends && strings.Contains(g.Src(fd.Body), "m[pw] = true"),
		"a changed part is taken out of tb.parts and its rewritten copy is appended when it holds an item")
	boolDef("purgeNewPartUnflagged", fresh, "the rewritten copy is a fresh partWrapper: neither flag is set")
	emptyCond := ""
	ast.Inspect(fd.Body, func(n ast.Node) bool {
		if is, ok := n.(*ast.IfStmt); ok && emptyCond == "" && strings.Contains(g.Src(is.Cond), "itemsCount") {
			emptyCond = g.Src(is.Cond)
		}
		return true
	})
	g.P("def src_newPartCond : String := %s", leanStr(emptyCond))

	// ---- genTempPart / isDeleted ------------------------------------------------------------------
	gt, err := g.Func(tbl, "Table.genTempPart")
	if err != nil {
		return err
	}
	var changedConds []string
	ast.Inspect(gt.Body, func(n ast.Node) bool {
		is, ok := n.(*ast.IfStmt)
		if !ok {
			return true
		}
		for _, s := range is.Body.List {
			if as, ok := s.(*ast.AssignStmt); ok && g.Src(as) == "changed = true" {
				changedConds = append(changedConds, g.Src(is.Cond))
			}
		}
		return true
	})
	g.StrList("src_genTempPartChanged", changedConds)
	idl, err := g.Func(tbl, "isDeleted")
	if err != nil {
		return err
	}
	g.P("def src_isDeleted : String := %s", leanStr(g.Src(idl.Body)))

	// ---- the mergers ------------------------------------------------------------------------------
	ap, err := g.Func(tbl, "appendPartsToMerge")
	if err != nil {
		return err
	}
	mergeSkipsMarked := false
	ast.Inspect(ap.Body, func(n ast.Node) bool {
		if is, ok := n.(*ast.IfStmt); ok && hasContinue(is.Body) && strings.Contains(g.Src(is.Cond), "pw.isDeleteTsids") {
			mergeSkipsMarked = true
		}
		return true
	})
	boolDef("mergeSkipsMarked", mergeSkipsMarked, "the mergers never pick a part that carries the purge mark")
	gp, err := g.Func(tbl, "getPartsToMerge")
	if err != nil {
		return err
	}
	mergeSkipsInMerge := false
	ast.Inspect(gp.Body, func(n ast.Node) bool {
		if is, ok := n.(*ast.IfStmt); ok && g.Src(is.Cond) == "!pw.isInMerge" && strings.Contains(g.Src(is.Body), "pwsRemaining = append(pwsRemaining, pw)") {
			mergeSkipsInMerge = true
		}
		return true
	})
	boolDef("mergeSkipsInMerge", mergeSkipsInMerge, "the mergers never pick a part that is already being merged")
	boolDef("mergeMarksPicked", assigns(gp.Body, "isInMerge", "true"), "getPartsToMerge sets isInMerge on the parts it returns")
	mp, err := g.Func(tbl, "Table.mergeParts")
	if err != nil {
		return err
	}
	deferClears := false
	var publish []string
	for i, s := range mp.Body.List {
		if d, ok := s.(*ast.DeferStmt); ok && assigns(d, "isInMerge", "false") {
			deferClears = true
		}
		if as, ok := s.(*ast.AssignStmt); ok && len(as.Rhs) == 1 && g.Src(as.Rhs[0]) == "removeParts(tb.parts, m)" {
			for _, t := range mp.Body.List[i-1 : i+3] {
				publish = append(publish, g.Src(t))
			}
		}
	}
	boolDef("mergeClearsInMergeDeferred", deferClears, "mergeParts takes isInMerge off its source parts when it returns")
	g.StrList("steps_mergePublish", publish)

	// ---- the deleted-tsid table and the caches ----------------------------------------------------
	for _, f := range [][3]string{
		{tbl, "Table.SetLabelForDeletePart", "steps_setLabelForDeletePart"},
		{tbl, "Table.RemoveDeletedPart", "steps_removeDeletedPart"},
		{"engine/index/tsi/mergeset_index.go", "MergeSetIndex.ClearCache", "steps_clearCache"},
	} {
		s, _, err := stmts(f[0], f[1])
		if err != nil {
			return err
		}
		g.StrList(f[2], s)
	}
	// ---- the purge over the indexes of one policy ------------------------------------------------
	pol, pfd, err := stmts("engine/index/tsi/index_builder.go", "DropSeriesOfPolicy")
	if err != nil {
		return err
	}
	g.StrList("steps_dropSeriesOfPolicy", pol)
	// the parts of the shared deleted-tsid index are labelled before any index is walked, every index is
	// walked in one loop, an error of any walk returns before the labelled parts are removed
	label, loop, guard, forget := -1, -1, -1, -1
	for i, st := range pfd.Body.List {
		src := g.Src(st)
		switch x := st.(type) {
		case *ast.ExprStmt:
			if strings.HasSuffix(src, ".tb.SetLabelForDeletePart()") {
				label = i
			}
			if strings.HasSuffix(src, ".tb.RemoveDeletedPart()") {
				forget = i
			}
		case *ast.RangeStmt:
			if strings.Contains(src, "RemoveItemsByDelTsidsFromParts(") && strings.Contains(src, "errs = append(errs, e)") {
				loop = i
			}
		case *ast.IfStmt:
			if g.Src(x.Cond) == "len(errs) > 0" {
				for _, b := range x.Body.List {
					if _, ok := b.(*ast.ReturnStmt); ok {
						guard = i
					}
				}
			}
		}
	}
	boolDef("policyPurgeForgetsOnlyWhenAllOk", label >= 0 && label < loop && loop < guard && guard < forget,
		"the deleted-tsid index of a policy is labelled before its indexes are walked and emptied only after every walk succeeded")
	es, _, err := stmts("engine/engine_ddl.go", "EngineImpl.DropSeries")
	if err != nil {
		return err
	}
	g.StrList("steps_engineDropSeries", es)

	// ---- every index of a policy subtracts the policy's deleted tsids --------------------------------
	nm, err := g.Func("engine/partition.go", "DBPTInfo.NewMergeSetIndex")
	if err != nil {
		return err
	}
	attaches := false
	ast.Inspect(nm.Body, func(n ast.Node) bool {
		// in the branch that registers an ordinary index: if the policy has a deleted-tsid index, SetDeleteMergeSet
		if is, ok := n.(*ast.IfStmt); ok && strings.Contains(g.Src(is.Cond), "GetIndexID() == DelIndexBuilderId") {
			if els, ok := is.Else.(*ast.BlockStmt); ok {
				src := g.Src(els)
				attaches = strings.Contains(src, "dbPT.delIndexBuilderMap[rp]") && strings.Contains(src, ".SetDeleteMergeSet(")
			}
		}
		return true
	})
	boolDef("newIndexGetsDeletedSet", attaches, "an index created while the policy's deleted-tsid index is open is given it (NewMergeSetIndex)")
	gd, err := g.Func("engine/index/tsi/mergeset_index.go", "MergeSetIndex.GetDeletedTSIDs")
	if err != nil {
		return err
	}
	g.P("def src_getDeletedTSIDs : String := %s", leanStr(g.Src(gd.Body)))
	sd, _, err := stmts("engine/partition.go", "SetDelMergeSetForEachMergeSet")
	if err != nil {
		return err
	}
	_ = sd // already emitted as steps_setDelMergeSet by the first group

	// ---- SHOW TAG VALUES walks tag->tsids rows (engine/index/tsi/search.go) ---------------------------
	mx, err := g.Const("engine/index/mergeindex/merger.go", "MaxTSIDsPerRow")
	if err != nil {
		return err
	}
	g.P("/-- mergeindex.MaxTSIDsPerRow: a merged tag->tsids row holds at most this many tsids -/")
	g.P("def maxTSIDsPerRow : Nat := %s", mx)
	tv, err := g.Func("engine/index/tsi/search.go", "indexSearch.searchTagValuesBySingleKey")
	if err != nil {
		return err
	}
	var scan *ast.ForStmt
	for _, st := range tv.Body.List {
		if f, ok := st.(*ast.ForStmt); ok && strings.Contains(g.Src(f.Cond), "NextItem()") {
			scan = f
		}
	}
	if scan == nil {
		return fmt.Errorf("searchTagValuesBySingleKey: scan loop not found")
	}
	var scanSteps []string
	gate, record, full, seek := -1, -1, -1, -1
	fullCond := ""
	for i, st := range scan.Body.List {
		src := g.Src(st)
		scanSteps = append(scanSteps, src)
		switch x := st.(type) {
		case *ast.IfStmt:
			if g.Src(x.Cond) == "!isExpect" && hasContinue(x.Body) && gate < 0 {
				gate = i
			}
			if strings.Contains(g.Src(x.Cond), "MaxTSIDsPerRow") && hasContinue(x.Body) {
				full, fullCond = i, g.Src(x.Cond)
			}
		case *ast.AssignStmt:
			if strings.HasPrefix(src, "tagValueMap[") {
				record = i
			}
		case *ast.ExprStmt:
			if src == "ts.Seek(kb.B)" {
				seek = i
			}
		}
	}
	g.StrList("steps_tagValuesScanLoop", scanSteps)
	g.P("def src_tagValuesFullRowCond : String := %s", leanStr(fullCond))
	// the jump to the next tag value after a full row is reached only through the statement that records the
	// value: rows without a wanted tsid leave the loop body before it (`if !isExpect { continue }`), the record is
	// an unconditional statement of the loop body, the full-row test and the seek come after it
	boolDef("tagValuesSeekGuardedByRecord", gate >= 0 && gate < record && record < full && full < seek,
		"SHOW TAG VALUES jumps to the next tag value after a full row only when it has recorded the value of that row")
	boolDef("tagValuesSeeksAfterFullRow", full >= 0 && seek > full && strings.HasPrefix(fullCond, "mp.TSIDsLen() < "),
		"a row with fewer than MaxTSIDsPerRow tsids is followed by the next row, a full one by a seek past its tag value")
	for _, f := range [][3]string{
		{"engine/index/mergeindex/parser.go", "BasicRowParser.IsExpectedTag", "steps_isExpectedTag"},
		{"engine/index/tsi/search.go", "indexSearch.searchTagValues", "steps_searchTagValues"},
	} {
		s, _, err := stmts(f[0], f[1])
		if err != nil {
			return err
		}
		g.StrList(f[2], s)
	}

	// ---- the store side of the drops (engine/engine_ddl.go, engine/engine.go) ---------------------
	for _, f := range [][3]string{
		{"engine/engine_ddl.go", "EngineImpl.DropRetentionPolicy", "steps_engineDropRetentionPolicy"},
		{"engine/engine_ddl.go", "EngineImpl.DropMeasurement", "steps_engineDropMeasurement"},
		{"engine/engine.go", "deleteDataAndWalPath", "steps_deleteDataAndWalPath"},
		{"engine/engine.go", "EngineImpl.deleteShardsAndIndexes", "steps_deleteShardsAndIndexes"},
	} {
		s, _, err := stmts(f[0], f[1])
		if err != nil {
			return err
		}
		g.StrList(f[2], s)
	}
	// DeleteDatabase: the calls after the partition has been taken offline, in source order
	dd, err := g.Func("engine/engine_ddl.go", "EngineImpl.DeleteDatabase")
	if err != nil {
		return err
	}
	var ddCalls []string
	ast.Inspect(dd.Body, func(n ast.Node) bool {
		if c, ok := n.(*ast.CallExpr); ok {
			s := g.Src(c.Fun)
			if strings.HasPrefix(s, "e.") || strings.HasPrefix(s, "dbPTInfo.") || s == "deleteDataAndWalPath" || strings.HasPrefix(s, "colstore.") {
				ddCalls = append(ddCalls, s)
			}
		}
		return true
	})
	g.StrList("calls_engineDeleteDatabase", ddCalls)
	return nil
}
