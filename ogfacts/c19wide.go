package main

// C19 — the other listeners: lib/httpserver.Authenticate (the wrapper the ts-meta and ts-store
// HTTP handlers use), the endpoint switch of those two handlers, and the entry points into the
// httpd handler that are not routes (Handler.HandleQuery, called by the arrow flight service).

import (
	"fmt"
	"go/ast"
	"strings"
)

// c19Arms lists, for the switch on creds.Method inside fd, every arm with the number of error
// responses it writes and how many of them are not followed by a `return` (fall through to the
// wrapped handler). errFun is how the function spells the error writer.
func c19Arms(g *Gen, fd *ast.FuncDecl, errFun string) ([][2]string, error) {
	var sw *ast.SwitchStmt
	ast.Inspect(fd.Body, func(n ast.Node) bool {
		if s, ok := n.(*ast.SwitchStmt); ok && sw == nil && s.Tag != nil && g.Src(s.Tag) == "creds.Method" {
			sw = s
		}
		return sw == nil
	})
	if sw == nil {
		return nil, fmt.Errorf("C19: %s has no switch on creds.Method", fd.Name.Name)
	}
	var arms [][2]string
	for _, st := range sw.Body.List {
		cc := st.(*ast.CaseClause)
		label := "default"
		if cc.List != nil {
			var ls []string
			for _, l := range cc.List {
				ls = append(ls, g.Src(l))
			}
			label = strings.Join(ls, ",")
		}
		errs, unguarded := 0, 0
		var scan func(list []ast.Stmt)
		scan = func(list []ast.Stmt) {
			for i, s := range list {
				if es, ok := s.(*ast.ExprStmt); ok {
					if c, ok := es.X.(*ast.CallExpr); ok && g.Src(c.Fun) == errFun {
						errs++
						guarded := false
						for _, nx := range list[i+1:] {
							if _, ok := nx.(*ast.ReturnStmt); ok {
								guarded = true
								break
							}
							if _, ok := nx.(*ast.ExprStmt); !ok {
								break
							}
						}
						if !guarded {
							unguarded++
						}
					}
				}
				ast.Inspect(s, func(n ast.Node) bool {
					if b, ok := n.(*ast.BlockStmt); ok {
						scan(b.List)
						return false
					}
					if _, ok := n.(*ast.FuncLit); ok {
						return false
					}
					return true
				})
			}
		}
		scan(cc.Body)
		arms = append(arms, [2]string{label, fmt.Sprintf("errors=%d unguarded=%d", errs, unguarded)})
	}
	return arms, nil
}

// c19Endpoints reads the `switch r.Method { case M: switch r.URL.Path { case P: BODY } }` of a
// ServeHTTP method: (method, path, handler expression, wrapped with WrapHandler?).
func c19Endpoints(g *Gen, fd *ast.FuncDecl) []string {
	var rows []string
	for _, st := range fd.Body.List {
		sw, ok := st.(*ast.SwitchStmt)
		if !ok || sw.Tag == nil || g.Src(sw.Tag) != "r.Method" {
			continue
		}
		for _, mc := range sw.Body.List {
			mcc := mc.(*ast.CaseClause)
			if mcc.List == nil {
				continue
			}
			method := c19Unquote(g, mcc.List[0])
			for _, inner := range mcc.Body {
				isw, ok := inner.(*ast.SwitchStmt)
				if !ok || isw.Tag == nil || g.Src(isw.Tag) != "r.URL.Path" {
					rows = append(rows, fmt.Sprintf("⟨%s, %s, %s, false⟩", leanStr(method), leanStr("<shape>"), leanStr(g.Src(inner))))
					continue
				}
				for _, pc := range isw.Body.List {
					pcc := pc.(*ast.CaseClause)
					for _, pe := range pcc.List {
						path := c19Unquote(g, pe)
						handler, wrapped := "", false
						nServe := 0
						for _, bs := range pcc.Body {
							ast.Inspect(bs, func(n ast.Node) bool {
								c, ok := n.(*ast.CallExpr)
								if !ok {
									return true
								}
								fun := g.Src(c.Fun)
								if strings.HasSuffix(fun, ".ServeHTTP") {
									nServe++
									if s, ok := c.Fun.(*ast.SelectorExpr); ok {
										if wc, ok := s.X.(*ast.CallExpr); ok && g.Src(wc.Fun) == "h.WrapHandler" && len(wc.Args) == 1 {
											wrapped = true
											handler = g.Src(wc.Args[0])
										} else {
											handler = g.Src(s.X)
										}
									}
								} else if strings.HasPrefix(fun, "h.serve") || strings.HasPrefix(fun, "h.handle") {
									nServe++
									handler = fun
								}
								return true
							})
						}
						if nServe != 1 {
							wrapped = false // something else answers too: not of the one shape the model knows
						}
						rows = append(rows, fmt.Sprintf("⟨%s, %s, %s, %v⟩", leanStr(method), leanStr(path), leanStr(handler), wrapped))
					}
				}
			}
		}
	}
	return rows
}

func genC19Wide(g *Gen) error {
	g.P("")
	// ---- lib/httpserver.Authenticate ----------------------------------------------------
	const hs = "lib/httpserver/handler.go"
	fd, err := g.Func(hs, "Authenticate")
	if err != nil {
		return err
	}
	arms, err := c19Arms(g, fd, "httpd.HttpError")
	if err != nil {
		return err
	}
	g.P("/-- lib/httpserver.Authenticate (wrapper of the ts-meta and ts-store HTTP handlers): arms of the switch on creds.Method. -/")
	g.PairList("plainAuthArms", arms)
	fall := false
	for _, a := range arms {
		if a[0] == "default" && !strings.HasSuffix(a[1], "unguarded=0") {
			fall = true
		}
	}
	g.P("/-- the `default:` arm writes an error and then reaches the wrapped handler. -/")
	g.P("def plainAuthDefaultFallsThrough : Bool := %v", fall)
	fp, err := g.Fingerprint(hs, "Authenticate")
	if err != nil {
		return err
	}
	g.P("def fingerprint_plainAuthenticate : String := %s", leanStr(fp))
	// ---- the endpoint switches of ts-meta and ts-store ------------------------------------
	g.P("structure PlainEndpoint where\n  method : String\n  path : String\n  handler : String\n  wrapped : Bool   -- answered by h.WrapHandler(handler) and nothing else\nderiving DecidableEq, Repr\n")
	for _, pr := range [][3]string{{"meta", "app/ts-meta/meta/handler.go", "httpHandler"}, {"store", "app/ts-store/run/handler.go", "httpHandler"}} {
		sh, err := g.Func(pr[1], pr[2]+".ServeHTTP")
		if err != nil {
			return err
		}
		g.P("def %sEndpoints : List PlainEndpoint := [\n  %s\n]", pr[0], strings.Join(c19Endpoints(g, sh), ",\n  "))
		wh, err := g.Func(pr[1], pr[2]+".WrapHandler")
		if err != nil {
			return err
		}
		g.P("def src_%s_WrapHandler : String := %s", pr[0], leanStr(g.Src(wh.Body)))
	}
	// ---- the password cache of metaclient.Client.Authenticate -------------------------------
	const mc = "lib/metaclient/auth.go"
	au, err := g.Func(mc, "Auth.authenticate")
	if err != nil {
		return err
	}
	checks, nCacheCalls := false, 0
	ast.Inspect(au.Body, func(n ast.Node) bool {
		is, ok := n.(*ast.IfStmt)
		if !ok {
			return true
		}
		ast.Inspect(is.Cond, func(m ast.Node) bool {
			c, ok := m.(*ast.CallExpr)
			if !ok || !strings.HasPrefix(g.Src(c.Fun), "a.cache.") {
				return true
			}
			nCacheCalls++
			for _, a := range c.Args {
				if g.Src(a) == "user.Hash" {
					checks = true
				}
			}
			return true
		})
		return true
	})
	g.P("/-- Auth.authenticate hands the user's current hash to the cache comparison (so an entry made against an older hash does not count). -/")
	g.P("def authCacheChecksBase : Bool := %v", checks && nCacheCalls == 1)
	g.P("def src_Auth_authenticate : String := %s", leanStr(g.Src(au.Body)))
	for _, fn := range []string{"AuthCache.Compare", "AuthCache.CompareWithBase", "AuthCache.CleanIfNeeded"} {
		name := strings.ReplaceAll(fn, ".", "_")
		if fd, err := g.Func(mc, fn); err == nil {
			g.P("def src_%s : String := %s", name, leanStr(g.Src(fd.Body)))
		} else {
			g.P("def src_%s : String := \"<missing>\"", name)
		}
	}
	return nil
}
