package main

import (
	"fmt"
	"strings"
)

// C10, tagFilter.Init — what lean/OG/C10/TagFilter.lean transcribes: the cost constants and the
// or-values limit as definitions the model uses, the case tables of the functions that walk a
// syntax.Regexp (which Op leads to which branch), and fingerprints of the transcribed functions.
func genC10TF(g *Gen) error {
	const tf = "engine/index/tsi/tag_filters.go"
	for _, c := range []string{"fullMatchCost", "prefixMatchCost", "literalMatchCost", "suffixMatchCost", "middleMatchCost", "reMatchCost", "maxOrValues"} {
		v, err := g.Const(tf, c)
		if err != nil {
			return err
		}
		if !isIntLit(v) {
			return fmt.Errorf("%s is not an integer literal: %s", c, v)
		}
		g.P("def %s : Nat := %s", c, v)
	}
	pw, err := g.Const("engine/index/tsi/mergeset_index.go", "PruneWithSetTagValSize")
	if err != nil {
		return err
	}
	if !isIntLit(pw) {
		return fmt.Errorf("PruneWithSetTagValSize is not an integer literal: %s", pw)
	}
	g.P("def pruneWithSetTagValSize : Nat := %s", pw)
	for _, fn := range []string{"isDotStar", "isDotPlus", "getOrValuesExt", "getOptimizedReMatchFuncExt", "simplifyRegexpExt"} {
		rows, err := g.SwitchTable(tf, fn)
		if err != nil {
			return err
		}
		// labels only: the bodies are covered by the fingerprints
		var labels []string
		for _, r := range rows {
			labels = append(labels, r[0])
		}
		g.StrList("cases_"+fn, labels)
	}
	fd, err := g.Func(tf, "isLiteral")
	if err != nil {
		return err
	}
	g.StrList("src_isLiteral", stmtList(g, fd.Body.List))
	fd, err = g.Func(tf, "tagFilter.matchSuffix")
	if err != nil {
		return err
	}
	g.StrList("src_matchSuffix", stmtList(g, fd.Body.List))
	fd, err = g.Func(tf, "newMatchFuncForOrSuffixes")
	if err != nil {
		return err
	}
	g.StrList("src_newMatchFuncForOrSuffixes", stmtList(g, fd.Body.List))
	var fps [][2]string
	for _, e := range [][2]string{
		{tf, "tagFilter.Init"}, {tf, "tagFilter.InfluxRegrep"}, {tf, "getRegexpPrefix"}, {tf, "getRegexpFromCache"},
		{tf, "getOptimizedReMatchFunc"}, {tf, "getOptimizedReMatchFuncExt"}, {tf, "isDotStar"}, {tf, "isDotPlus"},
		{tf, "getOrValues"}, {tf, "getOrValuesExt"}, {tf, "extractRegexpPrefix"}, {tf, "simplifyRegexp"},
		{tf, "simplifyRegexpExt"}, {tf, "tagFilter.SetRegexMatchAll"},
		{"engine/index/tsi/search.go", "indexSearch.getTSIDsForTagFilterSlow"},
		{"engine/index/tsi/search.go", "chooseINPriority"},
		{"engine/index/tsi/search.go", "indexSearch.seriesByINExprIterator"},
		{"engine/index/tsi/search.go", "indexSearch.seriesByBinaryExprSetLiteral"},
		{"engine/index/tsi/search.go", "indexSearch.seriesByBinaryExprVarRef"},
		{"engine/index/tsi/search.go", "indexSearch.seriesByOneTagFilter"},
		{"engine/index/tsi/search.go", "indexSearch.seriesByAllIdsIterator"},
		{"engine/index/tsi/search.go", "isFieldExpr"},
		{"engine/index/tsi/search.go", "isAllFieldExpr"},
		{"engine/index/tsi/search.go", "indexSearch.isAllAndOpValid"},
		{"engine/index/tsi/search.go", "indexSearch.isAllAndSubExprValid"},
		{"engine/index/tsi/search.go", "indexSearch.isAllAndValueExprValid"},
		{"engine/index/tsi/search_prune.go", "indexSearch.doPruneWithSet"},
		{"engine/index/tsi/search_prune.go", "matchSeriesKeyWithSet"},
		{"engine/index/tsi/search_prune.go", "matchSeriesKeyWithSetTag"},
		{"engine/index/tsi/search.go", "indexSearch.collectTSIDsForSuffix"},
	} {
		fp, err := g.Fingerprint(e[0], e[1])
		if err != nil {
			return err
		}
		name := e[1]
		if i := strings.LastIndexByte(name, '.'); i >= 0 {
			name = name[i+1:]
		}
		fps = append(fps, [2]string{e[0][strings.LastIndexByte(e[0], '/')+1:] + ":" + name, fp})
	}
	g.PairList("tfFingerprints", fps)
	return nil
}
