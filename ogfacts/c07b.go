package main

// C07 — facts for the later layers (timestamp, bool, string, float framing, WAL reader).
func genC07Rest(g *Gen) error {
	const (
		encTime = "lib/encoding/timestamp.go"
		encBool = "lib/encoding/bool.go"
		bits    = "lib/util/lifted/go-bitstream/bitstream.go"
		cmpF    = "lib/compress/float.go"
		cmpC    = "lib/compress/compress.go"
		encF    = "lib/encoding/float.go"
	)
	if err := g.srcDef(encTime, "scale", "src_scale"); err != nil {
		return err
	}
	for _, c := range []string{"floatCompressedNull", "floatCompressedOldGorilla", "floatCompressedSnappy",
		"floatCompressedGorilla", "floatCompressedSame", "floatCompressedRLE", "floatCompressMLF",
		"floatCompressThreshold", "floatRLECompressThreshold"} {
		if err := g.natConst(cmpF, c, c, nil); err != nil {
			return err
		}
	}
	if err := g.natConst(cmpC, "RLEBlockLimit", "rleBlockLimit", nil); err != nil {
		return err
	}
	for _, f := range [][3]string{
		{cmpF, "GenerateContext", "src_generateContext"},
		{cmpF, "Context.Same", "src_ctxSame"},
		{cmpF, "Context.RLE", "src_ctxRLE"},
		{cmpF, "Context.Snappy", "src_ctxSnappy"},
		{cmpF, "Context.NotCompress", "src_ctxNotCompress"},
		{cmpC, "RLE.SameValueEncoding", "src_sameValueEncoding"},
	} {
		if err := g.srcDef(f[0], f[1], f[2]); err != nil {
			return err
		}
	}
	for _, f := range [][3]string{
		{encTime, "Time.encodingInit", "fp_timeEncodingInit"},
		{encTime, "Time.Encoding", "fp_timeEncoding"},
		{encTime, "Time.packUncompressedData", "fp_timePackUncompressedData"},
		{encTime, "Time.constDeltaEncoding", "fp_timeConstDeltaEncoding"},
		{encTime, "Time.simple8bEncoding", "fp_timeSimple8bEncoding"},
		{encTime, "Time.snappyEncoding", "fp_timeSnappyEncoding"},
		{encTime, "Time.decodingInit", "fp_timeDecodingInit"},
		{encTime, "Time.Decoding", "fp_timeDecoding"},
		{encTime, "Time.constDeltaDecoding", "fp_timeConstDeltaDecoding"},
		{encTime, "Time.simple8bDecoding", "fp_timeSimple8bDecoding"},
		{encTime, "Time.snappyDecoding", "fp_timeSnappyDecoding"},
		{encTime, "Time.unpackUncompressedData", "fp_timeUnpackUncompressedData"},
		{encBool, "Boolean.Encoding", "fp_boolEncoding"},
		{encBool, "Boolean.Decoding", "fp_boolDecoding"},
		{bits, "BitWriter.WriteBit", "fp_bitWriteBit"},
		{bits, "BitWriter.Flush", "fp_bitFlush"},
		{bits, "BitReader.ReadBit", "fp_bitReadBit"},
		{cmpF, "Float.adaptiveEncoding", "fp_floatAdaptiveEncoding"},
		{cmpF, "Float.AdaptiveDecoding", "fp_floatAdaptiveDecoding"},
		{cmpF, "Float.compressNull", "fp_floatCompressNull"},
		{cmpC, "RLE.SameValueDecoding", "fp_sameValueDecoding"},
		{cmpC, "RLE.Encoding", "fp_rleEncoding"},
		{cmpC, "RLE.Decoding", "fp_rleDecoding"},
		{cmpC, "paddingBuffer", "fp_paddingBuffer"},
		{cmpC, "SnappyEncoding", "fp_snappyEncoding"},
		{cmpC, "SnappyDecoding", "fp_snappyDecoding"},
		{cmpC, "GorillaEncoding", "fp_gorillaEncoding"},
		{cmpC, "GorillaDecoding", "fp_gorillaDecoding"},
		{encF, "Float.Encoding", "fp_encFloatEncoding"},
		{encF, "Float.Decoding", "fp_encFloatDecoding"},
	} {
		if err := g.fpDef(f[0], f[1], f[2]); err != nil {
			return err
		}
	}
	return nil
}
