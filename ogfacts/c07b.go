package main

// C07 — facts for the later layers (timestamp, bool, string, float framing, WAL reader).
func genC07Rest(g *Gen) error {
	const (
		encTime = "lib/encoding/timestamp.go"
		encBool = "lib/encoding/bool.go"
		bits    = "lib/util/lifted/go-bitstream/bitstream.go"
	)
	if err := g.srcDef(encTime, "scale", "src_scale"); err != nil {
		return err
	}
	for _, f := range [][3]string{
		{encTime, "Time.encodingInit", "fp_timeEncodingInit"},
		{encTime, "Time.Encoding", "fp_timeEncoding"},
		{encTime, "Time.packUncompressedData", "fp_timePackUncompressedData"},
		{encTime, "Time.constDeltaEncoding", "fp_timeConstDeltaEncoding"},
		{encTime, "Time.simple8bEncoding", "fp_timeSimple8bEncoding"},
		{encTime, "Time.snappyEncoding", "fp_timeSnappyEncoding"},
		{encTime, "Time.decodingInit", "fp_timeDecodingInit"},
		{encTime, "Time.Decoding", "fp_timeDecoding"},
		{encTime, "Time.constDeltaDecoding", "fp_timeConstDeltaDecoding"},
		{encTime, "Time.simple8bDecoding", "fp_timeSimple8bDecoding"},
		{encTime, "Time.snappyDecoding", "fp_timeSnappyDecoding"},
		{encTime, "Time.unpackUncompressedData", "fp_timeUnpackUncompressedData"},
		{encBool, "Boolean.Encoding", "fp_boolEncoding"},
		{encBool, "Boolean.Decoding", "fp_boolDecoding"},
		{bits, "BitWriter.WriteBit", "fp_bitWriteBit"},
		{bits, "BitWriter.Flush", "fp_bitFlush"},
		{bits, "BitReader.ReadBit", "fp_bitReadBit"},
	} {
		if err := g.fpDef(f[0], f[1], f[2]); err != nil {
			return err
		}
	}
	return nil
}
