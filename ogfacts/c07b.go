package main

import (
	"fmt"
	"go/ast"
	"go/token"
	"strings"
)

// C07 — facts for the later layers (timestamp, bool, string, float framing, WAL reader).
func genC07Rest(g *Gen) error {
	const (
		encTime = "lib/encoding/timestamp.go"
		encBool = "lib/encoding/bool.go"
		bits    = "lib/util/lifted/go-bitstream/bitstream.go"
		cmpF    = "lib/compress/float.go"
		cmpC    = "lib/compress/compress.go"
		encF    = "lib/encoding/float.go"
		wal     = "engine/wal.go"
		encStr  = "lib/encoding/string.go"
		encEnc  = "lib/encoding/encoding.go"
	)
	if err := g.srcDef(encTime, "scale", "src_scale"); err != nil {
		return err
	}
	for _, c := range []string{"floatCompressedNull", "floatCompressedOldGorilla", "floatCompressedSnappy",
		"floatCompressedGorilla", "floatCompressedSame", "floatCompressedRLE", "floatCompressMLF",
		"floatCompressThreshold", "floatRLECompressThreshold"} {
		if err := g.natConst(cmpF, c, c, nil); err != nil {
			return err
		}
	}
	if err := g.natConst(cmpC, "RLEBlockLimit", "rleBlockLimit", nil); err != nil {
		return err
	}
	for _, f := range [][3]string{
		{cmpF, "GenerateContext", "src_generateContext"},
		{cmpF, "Context.Same", "src_ctxSame"},
		{cmpF, "Context.RLE", "src_ctxRLE"},
		{cmpF, "Context.Snappy", "src_ctxSnappy"},
		{cmpF, "Context.NotCompress", "src_ctxNotCompress"},
		{cmpC, "RLE.SameValueEncoding", "src_sameValueEncoding"},
	} {
		if err := g.srcDef(f[0], f[1], f[2]); err != nil {
			return err
		}
	}
	if err := genC07Wal(g, wal); err != nil {
		return err
	}
	for _, f := range [][3]string{
		{encStr, "String.encInit", "fp_strEncInit"},
		{encStr, "String.Encoding", "fp_strEncoding"},
		{encStr, "String.encodingWithSnappy", "fp_strEncodingWithSnappy"},
		{encStr, "String.encodingWithZSTD", "fp_strEncodingWithZSTD"},
		{encStr, "String.encodingWithLz4", "fp_strEncodingWithLz4"},
		{encStr, "String.uncompressedData", "fp_strUncompressedData"},
		{encStr, "String.decodingInit", "fp_strDecodingInit"},
		{encStr, "String.Decoding", "fp_strDecoding"},
		{encStr, "String.decodingWithSnappy", "fp_strDecodingWithSnappy"},
		{encStr, "String.decodingWithZSTD", "fp_strDecodingWithZSTD"},
		{encStr, "String.decodingWithLz4", "fp_strDecodingWithLz4"},
		{encEnc, "packStringV2", "fp_packStringV2"},
		{encEnc, "unpackStringV2", "fp_unpackStringV2"},
		{encEnc, "unpackString", "fp_unpackString"},
		{encEnc, "EncodeStringBlock", "fp_encodeStringBlock"},
		{encEnc, "DecodeStringBlock", "fp_decodeStringBlock"},
		{wal, "WAL.replayPhysicRecord", "fp_walReplayPhysicRecord"},
		{wal, "WAL.writeBinary", "fp_walWriteBinary"},
		{encTime, "Time.encodingInit", "fp_timeEncodingInit"},
		{encTime, "Time.Encoding", "fp_timeEncoding"},
		{encTime, "Time.packUncompressedData", "fp_timePackUncompressedData"},
		{encTime, "Time.constDeltaEncoding", "fp_timeConstDeltaEncoding"},
		{encTime, "Time.simple8bEncoding", "fp_timeSimple8bEncoding"},
		{encTime, "Time.snappyEncoding", "fp_timeSnappyEncoding"},
		{encTime, "Time.decodingInit", "fp_timeDecodingInit"},
		{encTime, "Time.Decoding", "fp_timeDecoding"},
		{encTime, "Time.constDeltaDecoding", "fp_timeConstDeltaDecoding"},
		{encTime, "Time.simple8bDecoding", "fp_timeSimple8bDecoding"},
		{encTime, "Time.snappyDecoding", "fp_timeSnappyDecoding"},
		{encTime, "Time.unpackUncompressedData", "fp_timeUnpackUncompressedData"},
		{encBool, "Boolean.Encoding", "fp_boolEncoding"},
		{encBool, "Boolean.Decoding", "fp_boolDecoding"},
		{bits, "BitWriter.WriteBit", "fp_bitWriteBit"},
		{bits, "BitWriter.Flush", "fp_bitFlush"},
		{bits, "BitReader.ReadBit", "fp_bitReadBit"},
		{cmpF, "Float.adaptiveEncoding", "fp_floatAdaptiveEncoding"},
		{cmpF, "Float.AdaptiveDecoding", "fp_floatAdaptiveDecoding"},
		{cmpF, "Float.compressNull", "fp_floatCompressNull"},
		{cmpC, "RLE.SameValueDecoding", "fp_sameValueDecoding"},
		{cmpC, "RLE.Encoding", "fp_rleEncoding"},
		{cmpC, "RLE.Decoding", "fp_rleDecoding"},
		{cmpC, "paddingBuffer", "fp_paddingBuffer"},
		{cmpC, "SnappyEncoding", "fp_snappyEncoding"},
		{cmpC, "SnappyDecoding", "fp_snappyDecoding"},
		{cmpC, "GorillaEncoding", "fp_gorillaEncoding"},
		{cmpC, "GorillaDecoding", "fp_gorillaDecoding"},
		{encF, "Float.Encoding", "fp_encFloatEncoding"},
		{encF, "Float.Decoding", "fp_encFloatDecoding"},
	} {
		if err := g.fpDef(f[0], f[1], f[2]); err != nil {
			return err
		}
	}
	return nil
}

// genC07Wal: which results of `io.ReadFull(fr, recordCompBuff)` make replayPhysicRecord decode
// the record buffer, the record-type guard, the header size and the record type names.
func genC07Wal(g *Gen, wal string) error {
	fd, err := g.Func(wal, "WAL.replayPhysicRecord")
	if err != nil {
		return err
	}
	var cond ast.Expr
	var guard string
	for i, st := range fd.Body.List {
		if as, ok := st.(*ast.AssignStmt); ok && len(as.Rhs) == 1 &&
			g.Src(as.Rhs[0]) == "io.ReadFull(fr, recordCompBuff)" && i+1 < len(fd.Body.List) {
			if ifs, ok := fd.Body.List[i+1].(*ast.IfStmt); ok && ifs.Init == nil {
				cond = ifs.Cond
			}
		}
		if ifs, ok := st.(*ast.IfStmt); ok && strings.Contains(g.Src(ifs.Cond), "writeWalType") && guard == "" {
			guard = g.Src(ifs.Cond)
		}
	}
	if cond == nil {
		return fmt.Errorf("%s: replayPhysicRecord: no `if` right after io.ReadFull(fr, recordCompBuff)", wal)
	}
	var terms []ast.Expr
	var flat func(e ast.Expr)
	flat = func(e ast.Expr) {
		if p, ok := e.(*ast.ParenExpr); ok {
			flat(p.X)
			return
		}
		if b, ok := e.(*ast.BinaryExpr); ok && b.Op == token.LOR {
			flat(b.X)
			flat(b.Y)
			return
		}
		terms = append(terms, e)
	}
	flat(cond)
	onNil, onEOF, onUnexp := false, false, false
	for _, t := range terms {
		switch g.Src(t) {
		case "err == nil":
			onNil = true
		case "err == io.EOF":
			onEOF = true
		case "err == io.ErrUnexpectedEOF":
			onUnexp = true
		default:
			return fmt.Errorf("%s: replayPhysicRecord: unrecognised acceptance term %q", wal, g.Src(t))
		}
	}
	if !onNil {
		return fmt.Errorf("%s: replayPhysicRecord does not decode a completely read record (%s)", wal, g.Src(cond))
	}
	g.P("def walAcceptCond : String := %s", leanStr(g.Src(cond)))
	g.P("def walDecodeOnEOF : Bool := %v", onEOF)
	g.P("def walDecodeOnUnexpectedEOF : Bool := %v", onUnexp)
	g.P("def walTypeGuard : String := %s", leanStr(guard))
	if err := g.natConst(wal, "WalRecordHeadSize", "walRecordHeadSize", nil); err != nil {
		return err
	}
	// names of the WalRecordType constants, in iota order
	f, err := g.Parse(wal)
	if err != nil {
		return err
	}
	var names []string
	for _, d := range f.Decls {
		gd, ok := d.(*ast.GenDecl)
		if !ok || gd.Tok != token.CONST || len(gd.Specs) == 0 {
			continue
		}
		first, ok := gd.Specs[0].(*ast.ValueSpec)
		if !ok || len(first.Names) != 1 || first.Names[0].Name != "WriteWalUnKnownType" {
			continue
		}
		if len(first.Values) != 1 || g.Src(first.Values[0]) != "iota" {
			return fmt.Errorf("%s: WriteWalUnKnownType is not iota", wal)
		}
		for i, sp := range gd.Specs {
			vs := sp.(*ast.ValueSpec)
			if len(vs.Names) != 1 || (i > 0 && len(vs.Values) != 0) {
				return fmt.Errorf("%s: unexpected WalRecordType constant block", wal)
			}
			names = append(names, vs.Names[0].Name)
		}
	}
	if len(names) == 0 {
		return fmt.Errorf("%s: WalRecordType constants not found", wal)
	}
	g.StrList("walTypeNames", names)
	return nil
}
