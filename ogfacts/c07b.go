package main

// C07 — facts for the later layers (timestamp, bool, string, float framing, WAL reader).
func genC07Rest(g *Gen) error {
	return nil
}
